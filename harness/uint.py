"""U-int: integer rule universes (DESIGN 4.1)."""
import itertools
import random


def rand_history(rnd: random.Random, max_classes=8, max_rules=14, max_shift=3):
    n = rnd.randint(1, max_classes)
    S = rnd.choice([1, 1, 2, 3][: max(1, max_shift + 1)]) if max_shift >= 1 else 0
    S = min(S, max_shift)
    rules = []
    for _ in range(rnd.randint(1, max_rules)):
        k = rnd.choice([0, 1, 1, 2, 2, 3])
        cs = tuple(rnd.randrange(n) for _ in range(k))
        mode = rnd.random()
        if mode < 0.25:
            ss = tuple(0 for _ in range(k))
        elif mode < 0.5:
            ss = tuple(rnd.randint(0, S) for _ in range(k))
        else:
            ss = tuple(rnd.randint(-S, S) for _ in range(k))
        rules.append((rnd.randrange(n), cs, ss))
    return n, rules


def fmt_history(n, rules):
    return f"{n} " + ";".join(
        f"{p}|{','.join(map(str, cs))}|{','.join(map(str, ss))}" for p, cs, ss in rules
    )


def exhaustive_small(max_classes=2, max_rules=3, shifts=(-1, 0, 1)):
    """every rule list over <= max_classes classes, <= max_rules rules, arity <= 2."""
    for n in range(1, max_classes + 1):
        shapes = []
        for p in range(n):
            shapes.append((p, (), ()))
            for c in range(n):
                for s in shifts:
                    shapes.append((p, (c,), (s,)))
            for c1 in range(n):
                for c2 in range(c1, n):
                    for s1 in shifts:
                        for s2 in shifts:
                            shapes.append((p, (c1, c2), (s1, s2)))
        for k in range(1, max_rules + 1):
            for combo in itertools.product(shapes, repeat=k):
                yield n, list(combo)


def forest_test_universes():
    """The universes of tests/test_forest.py as (n, rules)."""
    out = []
    u132 = [
        (0, (1, 2), (0, 0)), (1, (), ()), (2, (3,), (0,)), (3, (4,), (0,)),
        (4, (5, 6), (0, 0)), (5, (), ()), (6, (7, 8), (1, 1)), (7, (), ()),
        (8, (0, 0), (0, 0)),
    ]
    out.append((9, u132))
    seg = [
        (0, (1, 2), (0, 0)), (1, (), ()), (2, (3,), (0,)), (3, (4, 5), (0, 0)),
        (4, (), ()), (5, (6, 0), (1, 0)), (6, (), ()), (2, (7,), (0,)),
        (7, (8, 9), (0, 0)), (8, (), ()), (9, (10, 2), (1, 2)), (10, (), ()),
        (0, (11,), (-2,)), (11, (12, 13), (3, 0)), (12, (), ()), (13, (0, 0), (1, 1)),
    ]
    out.append((14, seg))
    return out
