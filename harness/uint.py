"""U-int: integer rule universes (DESIGN 4.1)."""
import itertools
import random


def rand_history(rnd: random.Random, max_classes=8, max_rules=14, max_shift=3):
    """shifts: per history a global cap S, per rule its own magnitude (so that a rule with a new
    largest shift can arrive late), three sign modes"""
    n = rnd.randint(1, max_classes)
    S = rnd.randint(1, max(1, max_shift)) if max_shift >= 1 else 0
    rules = []
    for _ in range(rnd.randint(1, max_rules)):
        k = rnd.choice([0, 1, 1, 2, 2, 3])
        cs = tuple(rnd.randrange(n) for _ in range(k))
        s_r = rnd.randint(0, S)
        mode = rnd.random()
        if mode < 0.2:
            ss = tuple(0 for _ in range(k))
        elif mode < 0.55:
            ss = tuple(rnd.randint(0, s_r) for _ in range(k))
        else:
            ss = tuple(rnd.randint(-s_r, s_r) for _ in range(k))
        rules.append((rnd.randrange(n), cs, ss))
    return n, rules


def layered_history(rnd: random.Random, max_classes=6, max_rules=10, max_shift=4):
    """mostly acyclic universes with positive shifts: classes take finite positive values, so the
    gap window (its size, its position, rules held above it) is exercised; a few back edges."""
    n = rnd.randint(2, max_classes)
    rules = []
    for _ in range(rnd.randint(2, max_rules)):
        p = rnd.randrange(n)
        k = rnd.choice([1, 1, 1, 2, 2, 0])
        cs = []
        for _ in range(k):
            if rnd.random() < 0.8 and p + 1 < n:
                cs.append(rnd.randrange(p + 1, n))
            else:
                cs.append(rnd.randrange(n))
        ss = tuple(rnd.choice([0, 1, 1, 1, 2, 2, 3, max_shift, -1]) for _ in cs)
        rules.append((p, tuple(cs), ss))
    rnd.shuffle(rules)
    return n, rules


def fmt_history(n, rules):
    return f"{n} " + ";".join(
        f"{p}|{','.join(map(str, cs))}|{','.join(map(str, ss))}" for p, cs, ss in rules
    )


def exhaustive_small(max_classes=2, max_rules=3, shifts=(-1, 0, 1)):
    """every rule list over <= max_classes classes, <= max_rules rules, arity <= 2."""
    for n in range(1, max_classes + 1):
        shapes = []
        for p in range(n):
            shapes.append((p, (), ()))
            for c in range(n):
                for s in shifts:
                    shapes.append((p, (c,), (s,)))
            for c1 in range(n):
                for c2 in range(c1, n):
                    for s1 in shifts:
                        for s2 in shifts:
                            shapes.append((p, (c1, c2), (s1, s2)))
        for k in range(1, max_rules + 1):
            for combo in itertools.product(shapes, repeat=k):
                yield n, list(combo)


def forest_test_universes():
    """The universes of tests/test_forest.py as (n, rules)."""
    out = []
    u132 = [
        (0, (1, 2), (0, 0)), (1, (), ()), (2, (3,), (0,)), (3, (4,), (0,)),
        (4, (5, 6), (0, 0)), (5, (), ()), (6, (7, 8), (1, 1)), (7, (), ()),
        (8, (0, 0), (0, 0)),
    ]
    out.append((9, u132))
    seg = [
        (0, (1, 2), (0, 0)), (1, (), ()), (2, (3,), (0,)), (3, (4, 5), (0, 0)),
        (4, (), ()), (5, (6, 0), (1, 0)), (6, (), ()), (2, (7,), (0,)),
        (7, (8, 9), (0, 0)), (8, (), ()), (9, (10, 2), (1, 2)), (10, (), ()),
        (0, (11,), (-2,)), (11, (12, 13), (3, 0)), (12, (), ()), (13, (0, 0), (1, 1)),
    ]
    out.append((14, seg))
    return out
