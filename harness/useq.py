"""U-seq: random table-driven universes of classes of words over one letter, valid at the level of counting sequences.
Built for C13: classes with *several* rules using different constructors (union and product descriptions of the same
sequence), unary two-way rules that are not declared equivalences, several children with the same sequence.

A grammar maps a name to "atom<k>" or to a list of alternative rules (op, children), op in {"+", "x", "="}. Building blocks:
  N-class X ("non-empty words", one object of every size >= 1) described as
      (a)  X = Z x S_X,  S_X = E + X        and / or        (b)  X = Z + Q_X,  Q_X = Z x X
  alias  Y = X'  (a unary two-way rule that is *not* declared an equivalence) in front of an N-class
  root   R = X_1 + ... + X_k            (k = 2, 3)   or   R = X_1 x X_2 (words of length >= 2, with multiplicity)
The counting sequences are computed here, independently of the library, from the first rule of every class; `well_formed`
checks that every alternative rule gives the same sequence."""
import random as random_mod

from comb_spec_searcher import (
    AtomStrategy,
    CartesianProductStrategy,
    CombinatorialClass,
    CombinatorialObject,
    DisjointUnionStrategy,
    StrategyPack,
)

GRAMMARS = {}


class Obj(str, CombinatorialObject):
    def size(self):
        return str.__len__(self)


_COUNT, _BUSY = {}, set()


def rule_counts(gid, rule, n):
    op, children = rule
    if op in ("+", "=", "~"):
        return sum(counts(gid, c, n) for c in children)
    res = {0: 1}
    for c in children:
        new = {}
        for k, v in res.items():
            for m in range(n - k + 1):
                w = counts(gid, c, m)
                if w:
                    new[k + m] = new.get(k + m, 0) + v * w
        res = new
    return res.get(n, 0)


def counts(gid, name, n):
    key = (gid, name, n)
    if key in _COUNT:
        return _COUNT[key]
    rules = GRAMMARS[gid][name]
    if isinstance(rules, str):
        res = int(n == int(rules[4:]))
    else:
        if key in _BUSY:
            return 0
        _BUSY.add(key)
        res = rule_counts(gid, rules[0], n)
        _BUSY.discard(key)
    _COUNT[key] = res
    return res


def well_formed(gid, upto=7):
    return all(rule_counts(gid, rule, n) == counts(gid, name, n)
               for name, rules in GRAMMARS[gid].items() if not isinstance(rules, str) for rule in rules for n in range(upto))


class T(CombinatorialClass):
    def __init__(self, gid, name):
        self.gid, self.name = gid, name

    @property
    def rules(self):
        return GRAMMARS[self.gid][self.name]

    def is_empty(self):
        return False

    def is_atom(self):
        return isinstance(self.rules, str)

    def minimum_size_of_object(self):
        return next(n for n in range(60) if counts(self.gid, self.name, n))

    def objects_of_size(self, n, **parameters):
        if self.is_atom():
            if n == int(self.rules[4:]):
                yield Obj("z" * n)
            return
        raise NotImplementedError

    def to_jsonable(self):
        d = super().to_jsonable()
        d.update(gid=self.gid, name=self.name)
        return d

    @classmethod
    def from_dict(cls, d):
        return cls(d["gid"], d["name"])

    def __eq__(self, other):
        return isinstance(other, T) and (self.gid, self.name) == (other.gid, other.name)

    def __hash__(self):
        return hash((self.gid, self.name))

    def __repr__(self):
        return f"T({self.gid}.{self.name})"

    __str__ = __repr__


class _Alt:
    OP = "?"

    def __init__(self, k):
        self.k = k
        super().__init__(ignore_parent=False, inferrable=False, possibly_empty=False, workable=True)

    def decomposition_function(self, c):
        rules = c.rules
        if isinstance(rules, str) or self.k >= len(rules) or rules[self.k][0] != self.OP:
            return None
        return tuple(T(c.gid, x) for x in rules[self.k][1])

    def formal_step(self):
        return f"table rule {self.k} ({self.OP})"

    def forward_map(self, c, obj, children=None):
        raise NotImplementedError

    def backward_map(self, c, objs, children=None):
        raise NotImplementedError

    @classmethod
    def from_dict(cls, d):
        return cls(d["k"])

    def to_jsonable(self):
        d = super().to_jsonable()
        for key in ("ignore_parent", "inferrable", "possibly_empty", "workable"):
            d.pop(key, None)
        d["k"] = self.k
        return d

    def __repr__(self):
        return f"{type(self).__name__}({self.k})"

    __str__ = __repr__


class AltUnion(_Alt, DisjointUnionStrategy):
    OP = "+"


class AltProduct(_Alt, CartesianProductStrategy):
    OP = "x"


class AltAlias(_Alt, DisjointUnionStrategy):
    """a unary two-way rule that is not declared an equivalence"""

    OP = "="

    def can_be_equivalent(self):
        return False


class AltEquiv(_Alt, DisjointUnionStrategy):
    """a unary two-way rule that is a declared equivalence (a size-preserving bijection between two classes)"""

    OP = "~"


def pack(max_rules=3, split=False):
    if split:  # unions as initial strategies, the rest in an expansion set: the last level may add rules without adding classes
        return StrategyPack(initial_strats=[AltUnion(k) for k in range(max_rules)], inferral_strats=[],
                            expansion_strats=[[s(k) for k in range(max_rules) for s in (AltProduct, AltAlias, AltEquiv)]],
                            ver_strats=[AtomStrategy()], name="table pack (split)")
    return StrategyPack(initial_strats=[], inferral_strats=[],
                        expansion_strats=[[s(k) for k in range(max_rules) for s in (AltUnion, AltProduct, AltAlias, AltEquiv)]],
                        ver_strats=[AtomStrategy()], name="table pack")


def rand_plan(rnd):
    op = rnd.choice(["+", "+", "x"])
    k = 2 if op == "x" else rnd.choice([2, 2, 3])
    aliases = rnd.random() < 0.5   # half of the plans have no alias at all (the plain finder's domain)
    return {"op": op, "k": k, "desc": [rnd.choice(["a", "b", "ab", "ba"]) for _ in range(k)],
            "front": [aliases and rnd.random() < 0.3 for _ in range(k)],      # an alias in front of the N-class
            "alias": [aliases and rnd.random() < 0.6 for _ in range(k)],      # an alias of its all-words class S_i (description a only)
            "pp": [rnd.random() < 0.4 for _ in range(k)]}                     # a further child  PP_i = W x (S_i or its alias)


def vary(rnd, plan):
    """the same shape with other descriptions of the N-classes"""
    return dict(plan, desc=[rnd.choice(["a", "b", "ab", "ba"]) for _ in range(plan["k"])])


def rand_grammar(rnd, gid, plan):
    """the grammar of a plan; the places where a class or its alias is used are chosen at random, so two grammars of one plan
    differ only in where the (real, non-equivalence) alias rules sit"""
    g = {"Z": "atom1", "E": "atom0", "W": "atom2"}
    kids = []
    for i in range(plan["k"]):
        x = f"X{i}"
        alts = []
        for d in plan["desc"][i]:
            if d == "a":
                g[f"S{i}"] = [("+", ("E", x))]
                s_used = f"S{i}"
                if plan["alias"][i]:
                    g[f"A{i}"] = [("=", (f"S{i}",))]
                    if rnd.random() < 0.5:
                        s_used = f"A{i}"
                alts.append(("x", ("Z", s_used)))
            else:
                alts.append(("+", ("Z", f"Q{i}")))
                g[f"Q{i}"] = [("x", ("Z", x))]
        g[x] = alts
        if plan["front"][i]:
            g[f"Y{i}"] = [("=", (x,))]
            kids.append(f"Y{i}")
        else:
            kids.append(x)
        if plan["pp"][i] and f"S{i}" in g and plan["op"] == "+":
            g[f"PP{i}"] = [("x", ("W", f"A{i}" if (f"A{i}" in g and rnd.random() < 0.5) else f"S{i}"))]
            kids.append(f"PP{i}")
    g["R"] = [(plan["op"], tuple(kids))]
    GRAMMARS[gid] = g
    for key in [key for key in _COUNT if key[0] == gid]:
        del _COUNT[key]
    return g


def rand_sym_pair(rnd, gid1, gid2):
    """two finite universes over the same base classes (products and unions of atoms of sizes 0..3), decorated independently
    with declared equivalences: a class X and its padding E x X, a class and its mirror image (copies of the children, listed in
    the opposite order), copies. Equivalence classes then contain atoms next to classes with a decomposition, and several rules
    that coincide up to equivalence but list their children differently."""
    atoms = {"E": "atom0", "Z": "atom1", "W": "atom2", "T": "atom3"}
    base_rnd = random_mod.Random(rnd.randrange(10**9))
    base, pool = {}, ["Z", "W", "T"]
    for i in range(base_rnd.randint(2, 4)):
        op = base_rnd.choice(["x", "x", "+"])
        kids = tuple(base_rnd.choice(pool + (["E"] if op == "x" else [])) for _ in range(2))
        if op == "x" and kids == ("E", "E"):
            kids = ("E", "Z")
        base[f"C{i}"] = [(op, kids)]
        pool.append(f"C{i}")
    root_kids = tuple(base_rnd.sample(pool, min(len(pool), base_rnd.choice([2, 2, 3]))))
    root_op = base_rnd.choice(["+", "+", "x"])
    for gid in (gid1, gid2):
        g = dict(atoms)
        g.update({k: list(v) for k, v in base.items()})
        fresh = [0]

        def new(prefix):
            fresh[0] += 1
            return f"{prefix}{fresh[0]}"

        def decorate(x):
            """a class equinumerous to x, linked to it by declared equivalences"""
            r = rnd.random()
            if r < 0.3:
                return x
            if r < 0.55:  # padding: P = E x X' for an unlinked copy X' of X (its own classes), and P ~ X
                def dup(y):
                    d = new("D")
                    g[d] = g[y] if isinstance(g[y], str) else [(g[y][0][0], tuple(dup(z) for z in g[y][0][1]))]
                    return d

                xc = dup(x)
                p = new("P")
                g[p] = [("x", ("E", xc) if rnd.random() < 0.5 else (xc, "E"))]
                if rnd.random() < 0.6 or isinstance(g[x], str):
                    g[p].append(("~", (x,)))
                else:
                    g[x] = g[x] + [("~", (p,))]
                return p
            if r < 0.8 and not isinstance(g[x], str) and len(g[x][0][1]) == 2:  # mirror: copies of the children, other order
                op, (a, b) = g[x][0]
                a2, b2 = new("K"), new("K")
                g[a2] = [("~", (a,))]
                g[b2] = [("~", (b,))]
                m = new("M")
                g[m] = [(op, (b2, a2))]
                if rnd.random() < 0.5:
                    g[m].append(("~", (x,)))
                else:
                    g[x] = g[x] + [("~", (m,))]
                return m
            k = new("K")  # a plain copy
            g[k] = [("~", (x,))]
            return k

        kids = tuple(decorate(k) for k in root_kids)
        if rnd.random() < 0.5:
            kids = tuple(reversed(kids))
        g["R"] = [(root_op, kids)]
        GRAMMARS[gid] = g
        for key in [key for key in _COUNT if key[0] == gid]:
            del _COUNT[key]
