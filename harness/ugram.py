"""U-gram: small regular languages given by name, with table-driven strategies. Built for C19: a root that splits into
several classes verified by a strategy that offers a pack, where the pack can specify a class only with the help of a
reverse rule (an ordinary one, `D = X - Y`, or one that is an equivalence, `X -> (D, E)` with `E` empty), or without.

Copy i uses two letters (p, q); the kinds of classes of a copy:
  T = {q}   Y = {p}   E = {}          atoms / the empty class
  X = p(p|q)*                          verified by brute force (no pack)
  D = p(p|q)+  (variant Y)   or  p(p|q)*  (variant E: the language of X under another name)
  bD = q D      C = X + bD             (variant F: bD = q X, no reverse rule needed)
  variant Q: C = Aq + Y + gPq with Aq = (p|q)*q only obtainable as the quotient Pq / Ps of the product Pq = Aq x Ps
             (Pq = words containing q, Ps = p*: the sibling is not an atom, the counted class has minimum size 1; gPq = g Pq)
  variant M: C = the words over (p|q) with one marked (upper-case) letter -> (A) with A = (p|q)*, by the constructor
             `Pointing` (count n * a_n): one child object corresponds to n parent objects (the backward map is not injective)
  variant P: C = Aq x Ps used forwards (a product whose first factor is not an atom and has minimum size 1), everything
             specified down to atoms: Aq = q + p Aq + q Aq, Ps = eps + p Ps
  variant K: as F, but X is not verified by brute force: the pack offered for C verifies X by a strategy that itself offers a
             pack (X = p A, A = eps + p A + q A): a chain of verifications with packs
  variant R: as F with bD = q q X: a product with a repeated child class (T, T, X)
  variant N: as M, with A specified down to atoms (A = eps + p A + q A): no class verified by brute force
  variant W: C = Ev q Ps (even p-words, q, p-words) with Ps = Ev + Od, Od = p Ev in the outer pack and Ev verified by a strategy whose
             pack knows Ev only from the rules it is used in (a factory) and Ps = eps + p Ps: expanding Ev needs the reverse rule
             Ev = Ps - Od and gives Ps - a class of the original specification - another rule than it had
  variant D: C = the Dyck words over (p, q): C = eps + N, N = p C q C - an algebraic class (no rational generating function), a product
             with the same non-atom child twice
  variant H: C = p^8 followed by a Dyck word (a product with eight equal atoms): the spurious solution of the system agrees with the counts
             below order 6
  variant V: C = p^8 Vd + g A with A = (p|q)* = eps + p A + q A, Dk the Dyck words and Vd = A - Dk (the words that are not Dyck words)
             only obtainable as the complement of the second union rule A = Vd + Dk: the spurious power-series solution of the system
             (the other branch of Dk) is -x^6 + ..., it first differs from the counts at order 6 and sympy lists it first
  variant Z: as Y, but the pack offered for C keeps its strategies in an expansion set (verification strategies first in pack order)
  variant S: C = (p|q)+ = X + swap(X): a union rule with the *same* child class twice, told apart by the child index only
Root R = g + C1 + ... + Ck  (`g` a one-letter atom). Everything the oracle needs is generated directly from these
definitions (`words`), independently of the library. The classes duck-type upword.PW for the shared helpers
(`params`, `words`, `extra_parameters`)."""
from collections import Counter
from itertools import product

from comb_spec_searcher import (
    AtomStrategy,
    CartesianProductStrategy,
    CombinatorialClass,
    DisjointUnionStrategy,
    StrategyPack,
)
from comb_spec_searcher.strategies.constructor.base import Constructor
from comb_spec_searcher.exception import StrategyDoesNotApply
from comb_spec_searcher.strategies.rule import NonBijectiveRule
from comb_spec_searcher.strategies.strategy import Strategy, StrategyFactory, VerificationStrategy
from upword import W

LETTERS = [("a", "b"), ("c", "d"), ("e", "f")]
# a universe is named by its signature `sig`: one letter "Y" | "E" | "F" per copy, e.g. "YEF"


def _tails(p, q, n):
    return ("".join(t) for t in product((p, q), repeat=n)) if n >= 0 else iter(())


def _dyck(p, q, n):
    """the Dyck words of length n (p opens, q closes)"""
    if n % 2:
        return []
    out = []
    for t in product((p, q), repeat=n):
        h = 0
        for ch in t:
            h += 1 if ch == p else -1
            if h < 0:
                break
        else:
            if h == 0:
                out.append("".join(t))
    return out


def _words(name, n, sig):
    if name == "R":
        out = ["g"] if n == 1 else []
        for k in range(len(sig)):
            out += _words("C" + str(k), n, sig)
        return out
    if name == "G":
        return ["g"] if n == 1 else []
    kind, k = name[:-1], name[-1]
    p, q = LETTERS[int(k)]
    v = sig[int(k)]
    if kind == "T":
        return [q] if n == 1 else []
    if kind == "Y":
        return [p] if n == 1 else []
    if kind == "E":
        return []
    if kind == "X":
        return [p + t for t in _tails(p, q, n - 1)] if n >= 1 else []
    if kind == "D":
        lo = 2 if v in ("Y", "Z") else 1
        return [p + t for t in _tails(p, q, n - 1)] if n >= lo else []
    if kind == "bD":
        if v == "R":
            return [q + q + w for w in _words("X" + k, n - 2, sig)] if n >= 2 else []
        return [q + w for w in _words(("X" if v in ("F", "K") else "D") + k, n - 1, sig)] if n >= 1 else []
    if kind in ("pA", "qA"):
        return [(p if kind == "pA" else q) + w for w in _tails(p, q, n - 1)] if n >= 1 else []
    if kind == "Aq":
        return [t + q for t in _tails(p, q, n - 1)] if n >= 1 else []
    if kind == "Ps":
        return [p * n]
    if kind == "Pq":
        return [t for t in _tails(p, q, n) if q in t]
    if kind == "gPq":
        return ["g" + t for t in _words("Pq" + k, n - 1, sig)] if n >= 1 else []
    if kind in ("Nd", "Nk"):  # non-empty Dyck words: p D q D
        return [w for w in _dyck(p, q, n) if w]
    if kind == "Dk":
        return _dyck(p, q, n)
    if kind == "Vd":
        dy = set(_dyck(p, q, n))
        return [t for t in _tails(p, q, n) if t not in dy]
    if kind == "hV":
        return [p * 8 + w for w in _words("Vd" + k, n - 8, sig)] if n >= 8 else []
    if kind == "gA":
        return ["g" + t for t in _tails(p, q, n - 1)] if n >= 1 else []
    if kind == "Ev":
        return [p * n] if n % 2 == 0 else []
    if kind == "Od":
        return [p * n] if n % 2 == 1 else []
    if kind == "A":
        return list(_tails(p, q, n))
    if kind == "Eps":
        return [""] if n == 0 else []
    if kind in ("pAq", "qAq"):
        return [(p if kind == "pAq" else q) + w for w in _words("Aq" + k, n - 1, sig)] if n >= 1 else []
    if kind == "pPs":
        return [p * n] if n >= 1 else []
    if kind == "C":
        if v == "P":
            return _words("Pq" + k, n, sig)
        if v in ("M", "N"):
            return [w[:i] + w[i].upper() + w[i + 1:] for w in _tails(p, q, n) for i in range(n)]
        if v == "W":
            return [p * (2 * i) + q + p * (n - 1 - 2 * i) for i in range(n) if n - 1 - 2 * i >= 0]
        if v == "D":
            return _dyck(p, q, n)
        if v == "H":
            return [p * 8 + w for w in _dyck(p, q, n - 8)] if n >= 8 else []
        if v == "V":
            return _words("hV" + k, n, sig) + _words("gA" + k, n, sig)
        if v == "Q":
            return _words("Aq" + k, n, sig) + _words("Y" + k, n, sig) + _words("gPq" + k, n, sig)
        if v == "S":
            return ["".join(t) for t in product((p, q), repeat=n)] if n >= 1 else []
        return _words("X" + k, n, sig) + _words("bD" + k, n, sig)
    raise ValueError(name)


def _min(name, sig):
    return next(n for n in range(0, 12) if _words(name, n, sig)) if name[:-1] != "E" else 0


class GL(CombinatorialClass):
    params = ()
    extra_parameters = ()

    def __init__(self, name, sig):
        self.name = name
        self.sig = sig

    def is_empty(self):
        return self.name[:-1] == "E"

    def is_atom(self):
        return self.name == "G" or self.name[:-1] in ("T", "Y", "Eps")

    def minimum_size_of_object(self):
        return _min(self.name, self.sig)

    def words(self, n):
        return (W(w) for w in _words(self.name, n, self.sig))

    def objects_of_size(self, size, **parameters):
        return self.words(size)

    def possible_parameters(self, n):
        yield {}

    def get_parameters(self, obj):
        return ()

    def to_jsonable(self):
        d = super().to_jsonable()
        d["name"] = self.name
        d["sig"] = self.sig
        return d

    @classmethod
    def from_dict(cls, d):
        return cls(d["name"], d["sig"])

    def __eq__(self, other):
        return isinstance(other, GL) and self.name == other.name and self.sig == other.sig

    def __hash__(self):
        return hash(("GL", self.name, self.sig))

    def __repr__(self):
        return f"GL({self.name}/{self.sig})"

    __str__ = __repr__


class _Table:
    def __init__(self, table):
        self.table = {k: tuple(v) for k, v in dict(table).items()}
        super().__init__()

    def decomposition_function(self, c):
        if isinstance(c, GL) and c.name in self.table:
            return tuple(GL(x, c.sig) for x in self.table[c.name])
        return None

    def to_jsonable(self):
        d = super().to_jsonable()
        d["table"] = {k: list(v) for k, v in self.table.items()}
        return d

    @classmethod
    def from_dict(cls, d):
        return cls(d["table"])

    def __repr__(self):
        return f"{type(self).__name__}({sorted(self.table.items())})"

    __str__ = __repr__


class GUnion(_Table, DisjointUnionStrategy):
    def formal_step(self):
        return "split"

    def forward_map(self, c, obj, children=None):
        if children is None:
            children = self.decomposition_function(c)
        return tuple(W(obj) if str(obj) in _words(ch.name, len(obj), ch.sig) else None for ch in children)


class GUnion2(GUnion):
    """a second table of union rules (variant V: a class with two union rules)"""

    def formal_step(self):
        return "split otherwise"


class GProd(_Table, CartesianProductStrategy):
    def formal_step(self):
        return "factor"

    def backward_map(self, c, objs, children=None):
        yield W("".join(objs))

    def forward_map(self, c, obj, children=None):
        if c.name.startswith("Pq") or (c.name.startswith("C") and c.sig[int(c.name[-1])] == "P"):  # up to the last q, then the trailing p's
            _, q = LETTERS[int(c.name[-1])]
            i = str(obj).rindex(q) + 1
            return (W(obj[:i]), W(obj[i:]))
        if c.name.startswith("Nd") or c.name.startswith("Nk"):  # p D q D: split at the first return to height 0
            p_, _q = LETTERS[int(c.name[-1])]
            h = 0
            for i, ch in enumerate(str(obj)):
                h += 1 if ch == p_ else -1
                if h == 0:
                    return (W(obj[0]), W(obj[1:i]), W(obj[i]), W(obj[i + 1:]))
        k = len(children if children is not None else self.decomposition_function(c))
        return tuple(W(obj[i:i + 1]) for i in range(k - 1)) + (W(obj[k - 1:]),)  # single letters, then the rest


class GSym(_Table, DisjointUnionStrategy):
    """C -> (X, X): the words starting with p as they are, those starting with q with the two letters exchanged"""

    def decomposition_function(self, c):
        if isinstance(c, GL) and c.name in self.table:
            return (GL(self.table[c.name][0], c.sig),) * 2
        return None

    def formal_step(self):
        return "by first letter, up to exchanging the letters"

    @staticmethod
    def _swap(c, w):
        p, q = LETTERS[int(c.name[-1])]
        return W(str(w).translate(str.maketrans(p + q, q + p)))

    def forward_map(self, c, obj, children=None):
        p, _ = LETTERS[int(c.name[-1])]
        return (W(obj), None) if str(obj).startswith(p) else (None, self._swap(c, obj))

    def backward_map(self, c, objs, children=None):
        if objs[0] is not None:
            yield W(objs[0])
        else:
            yield self._swap(c, objs[1])


class Pointing(Constructor):
    """parent objects = child objects with one marked position: p_n = n * c_n"""

    def get_equation(self, lhs_func, rhs_funcs):
        import sympy

        x = sympy.var("x")
        return sympy.Eq(lhs_func, x * sympy.diff(rhs_funcs[0], x))

    def reliance_profile(self, n, **parameters):
        return ({"n": (n,)},)

    def get_terms(self, parent_terms, subterms, n):
        return Counter({k: n * v for k, v in subterms[0](n).items() if n * v})

    def get_sub_objects(self, subobjs, n):
        for param, objs in subobjs[0](n).items():
            yield param, (objs,)

    def random_sample_sub_objects(self, parent_count, subsamplers, subrecs, n, **parameters):
        return (subsamplers[0](n=n, **parameters),)

    def equiv(self, other, data=None):
        return isinstance(other, Pointing), None

    def __str__(self):
        return "pointing"


class PointRule(NonBijectiveRule):
    """the rule of `GPoint`: the forward map (forget the mark) is not injective; a parent object is told apart from the others
    over the same child object by the position of its mark (the library's extension point for such rules)"""

    def _forward_order(self, obj, image, data=None):
        return next(i for i, ch in enumerate(str(obj)) if ch.isupper())

    def _backward_order_item(self, idx, objs, data=None):
        w = str(objs[0])
        return W(w[:idx] + w[idx].upper() + w[idx + 1:])


class GPoint(_Table, Strategy):
    def __call__(self, comb_class, children=None):
        if children is None:
            children = self.decomposition_function(comb_class)
            if children is None:
                raise StrategyDoesNotApply("Strategy does not apply")
        return PointRule(self, comb_class, children=children)

    def can_be_equivalent(self):
        return False

    def is_two_way(self, comb_class):
        return False

    def is_reversible(self, comb_class):
        return False

    def shifts(self, comb_class, children=None):
        return (0,)

    def constructor(self, comb_class, children=None):
        return Pointing()

    def reverse_constructor(self, idx, comb_class, children=None):
        raise NotImplementedError

    def formal_step(self):
        return "mark a letter"

    def backward_map(self, c, objs, children=None):
        w = str(objs[0])
        for i in range(len(w)):
            yield W(w[:i] + w[i].upper() + w[i + 1:])

    def forward_map(self, c, obj, children=None):
        return (W(str(obj).lower()),)


class GBrute(VerificationStrategy):
    """verifies the named kinds; brute-force terms; no pack"""

    def __init__(self, kinds):
        self.kinds = tuple(kinds)
        super().__init__()

    def verified(self, c):
        if not isinstance(c, GL) or c.name[:-1] not in self.kinds:
            return False
        if c.name[:-1] == "A" and c.sig[int(c.name[-1])] in ("N", "V"):
            return False  # in an N copy A is specified by rules
        if c.name[:-1] == "C" and c.sig[int(c.name[-1])] == "W":
            return False  # in a W copy C is decomposed by the outer pack
        if c.name[:-1] == "X" and c.sig[int(c.name[-1])] == "K":
            return type(self) is GPackVer2  # in a K copy X is verified only by the strategy that offers the second pack
        return type(self) is not GPackVer2

    def formal_step(self):
        return "brute force"

    def get_terms(self, c, n):
        return Counter({(): len(_words(c.name, n, c.sig))}) if _words(c.name, n, c.sig) else Counter()

    def get_objects(self, c, n):
        return {(): [W(w) for w in _words(c.name, n, c.sig)]}

    def generate_objects_of_size(self, c, n, **parameters):
        yield from c.words(n)

    def random_sample_object_of_size(self, c, n, **parameters):
        import upword

        return upword._random.choice(sorted(c.words(n)))

    def get_genf(self, c, funcs=None):
        raise NotImplementedError

    def to_jsonable(self):
        d = super().to_jsonable()
        d["kinds"] = list(self.kinds)
        return d

    @classmethod
    def from_dict(cls, d):
        return cls(d["kinds"])

    def __repr__(self):
        return f"{type(self).__name__}({self.kinds})"

    __str__ = __repr__


def inner_pack(sig):
    union, prod = {}, {}
    union2 = {}
    sym, point = {}, {}
    for k, v in ((str(i), x) for i, x in enumerate(sig)):
        if v == "W":
            continue  # decomposed by the outer pack (w_tables)
        if v == "D":  # Dyck words: C = eps + N, N = p C q C (an algebraic class; a product with the same non-atom child twice)
            union["C" + k] = ("Eps" + k, "Nd" + k)
            prod["Nd" + k] = ("Y" + k, "C" + k, "T" + k, "C" + k)
            continue
        if v == "H":  # p^8 followed by a Dyck word: the two power-series solutions of the system agree below order 6
            prod["C" + k] = ("Y" + k,) * 8 + ("Dk" + k,)
            union["Dk" + k] = ("Eps" + k, "Nk" + k)
            prod["Nk" + k] = ("Y" + k, "Dk" + k, "T" + k, "Dk" + k)
            continue
        if v == "V":  # p^8 (A - Dk) + g A: the complement of the second union rule of A is the only rule of Vd
            union["C" + k] = ("hV" + k, "gA" + k)
            prod["hV" + k] = ("Y" + k,) * 8 + ("Vd" + k,)
            prod["gA" + k] = ("G", "A" + k)
            union["A" + k] = ("Eps" + k, "pA" + k, "qA" + k)
            prod["pA" + k] = ("Y" + k, "A" + k)
            prod["qA" + k] = ("T" + k, "A" + k)
            union2["A" + k] = ("Vd" + k, "Dk" + k)
            union["Dk" + k] = ("Eps" + k, "Nk" + k)
            prod["Nk" + k] = ("Y" + k, "Dk" + k, "T" + k, "Dk" + k)
            continue
        if v == "S":
            sym["C" + k] = ("X" + k,)
            continue
        if v == "M":
            point["C" + k] = ("A" + k,)
            continue
        if v == "N":  # as M, with A specified down to atoms (A = eps + p A + q A) instead of verified by brute force
            point["C" + k] = ("A" + k,)
            union["A" + k] = ("Eps" + k, "pA" + k, "qA" + k)
            prod["pA" + k] = ("Y" + k, "A" + k)
            prod["qA" + k] = ("T" + k, "A" + k)
            continue
        if v == "P":
            prod["C" + k] = ("Aq" + k, "Ps" + k)
            union["Aq" + k] = ("T" + k, "pAq" + k, "qAq" + k)
            prod["pAq" + k] = ("Y" + k, "Aq" + k)
            prod["qAq" + k] = ("T" + k, "Aq" + k)
            union["Ps" + k] = ("Eps" + k, "pPs" + k)
            prod["pPs" + k] = ("Y" + k, "Ps" + k)
            continue
        if v == "Q":
            union["C" + k] = ("Aq" + k, "Y" + k, "gPq" + k)
            prod["gPq" + k] = ("G", "Pq" + k)
            prod["Pq" + k] = ("Aq" + k, "Ps" + k)
            continue
        union["C" + k] = ("X" + k, "bD" + k)
        if v in ("Y", "Z"):
            union["X" + k] = ("D" + k, "Y" + k)
            prod["bD" + k] = ("T" + k, "D" + k)
        elif v == "E":
            union["X" + k] = ("D" + k, "E" + k)
            prod["bD" + k] = ("T" + k, "D" + k)
        elif v == "R":
            prod["bD" + k] = ("T" + k, "T" + k, "X" + k)
        else:
            prod["bD" + k] = ("T" + k, "X" + k)
    if "Z" in sig:
        # variant Z: as Y, with the strategies of the pack in an expansion set - the verification strategies then come *before* them
        # in the order of the pack (the order in which a rule is looked for when the pack is replayed)
        return StrategyPack(initial_strats=[], inferral_strats=[], expansion_strats=[[GUnion(union), GProd(prod), GSym(sym), GPoint(point)]],
                            ver_strats=[AtomStrategy()] + ([GPackVer2(["X"])] if "K" in sig else []) + [GBrute(["X", "Pq", "Ps", "A"])], name="inner")
    if "K" in sig:
        return StrategyPack(initial_strats=[GUnion(union), GProd(prod), GSym(sym), GPoint(point)], inferral_strats=[], expansion_strats=[],
                            ver_strats=[AtomStrategy(), GPackVer2(["X"]), GBrute(["X", "Pq", "Ps", "A"])], name="inner")
    if union2:
        return StrategyPack(initial_strats=[GUnion(union), GUnion2(union2), GProd(prod), GSym(sym), GPoint(point)], inferral_strats=[],
                            expansion_strats=[], ver_strats=[AtomStrategy(), GBrute(["X", "Pq", "Ps", "A"])], name="inner")
    return StrategyPack(initial_strats=[GUnion(union), GProd(prod), GSym(sym), GPoint(point)], inferral_strats=[], expansion_strats=[],
                        ver_strats=[AtomStrategy(), GBrute(["X", "Pq", "Ps", "A"])], name="inner")


def second_pack(sig):
    prod, union = {}, {}
    for k, v in ((str(i), x) for i, x in enumerate(sig)):
        if v == "K":
            prod["X" + k] = ("Y" + k, "A" + k)
            union["A" + k] = ("Eps" + k, "pA" + k, "qA" + k)
            prod["pA" + k] = ("Y" + k, "A" + k)
            prod["qA" + k] = ("T" + k, "A" + k)
    return StrategyPack(initial_strats=[GUnion(union), GProd(prod)], inferral_strats=[], expansion_strats=[],
                        ver_strats=[AtomStrategy()], name="second")


class GPackVer2(GBrute):
    """verifies X in the K copies and offers the second pack"""

    def formal_step(self):
        return "verified with a second pack"

    def pack(self, c):
        return second_pack(c.sig)


class GPackVer(GBrute):
    """verifies the C classes and offers the inner pack"""

    def formal_step(self):
        return "verified with a pack"

    def pack(self, c):
        return inner_pack(c.sig)


def w_tables(sig):
    """the tables of the W copies: (split Ps = Ev + Od, outer products, peel Ps = eps + p Ps, factor pPs = p Ps)"""
    split, prod0, peel, factor = {}, {}, {}, {}
    for k, v in ((str(i), x) for i, x in enumerate(sig)):
        if v == "W":
            split["Ps" + k] = ("Ev" + k, "Od" + k)
            prod0["C" + k] = ("Ev" + k, "T" + k, "Ps" + k)
            prod0["Od" + k] = ("Y" + k, "Ev" + k)
            peel["Ps" + k] = ("Eps" + k, "pPs" + k)
            factor["pPs" + k] = ("Y" + k, "Ps" + k)
    return split, prod0, peel, factor


class GUsedIn(StrategyFactory):
    """for a class, the ready rules (of the given union and product tables) in which it occurs on the right-hand side"""

    def __init__(self, union, prod):
        self.union = {k: tuple(v) for k, v in dict(union).items()}
        self.prod = {k: tuple(v) for k, v in dict(prod).items()}

    def __call__(self, c):
        if not isinstance(c, GL):
            return
        for strat in (GUnion(self.union), GProd(self.prod)):
            for parent, children in sorted(strat.table.items()):
                if c.name in children:
                    yield strat(GL(parent, c.sig))

    def __str__(self):
        return "used in"

    def __repr__(self):
        return f"GUsedIn({sorted(self.union.items())},{sorted(self.prod.items())})"

    @classmethod
    def from_dict(cls, d):
        return cls(d["union"], d["prod"])

    def to_jsonable(self):
        d = super().to_jsonable()
        d["union"] = {k: list(v) for k, v in self.union.items()}
        d["prod"] = {k: list(v) for k, v in self.prod.items()}
        return d


def w_pack(sig):
    split, prod0, peel, factor = w_tables(sig)
    return StrategyPack(initial_strats=[GUsedIn(split, {k: v for k, v in prod0.items() if k.startswith("C")})], inferral_strats=[],
                        expansion_strats=[[GUnion(peel), GProd(factor)]], ver_strats=[AtomStrategy()], name="wpack")


class GEvenVer(GBrute):
    """verifies Ev in the W copies and offers a pack that knows Ev only from the rules it is used in"""

    def formal_step(self):
        return "even words, verified with a pack"

    def pack(self, c):
        return w_pack(c.sig)


def build(cfg):
    """(root, outer pack, rule database) for cfg['gram'] = list of variants, one per copy"""
    from specrun import DBS

    sig = "".join(cfg["gram"])
    split, prod0, peel, factor = w_tables(sig)
    wstrats = [GProd(prod0), GUnion(split)] if "W" in sig else []
    if cfg.get("gram_flat"):  # the inner strategies applied directly: no class verified with a pack
        inner = inner_pack(sig)
        flat = StrategyPack(initial_strats=[GUnion({"R": ("G",) + tuple("C" + str(k) for k in range(len(sig)))})] + list(inner.initial_strats)
                            + wstrats + ([GUnion(peel), GProd(factor)] if wstrats else []),
                            inferral_strats=[], expansion_strats=[], ver_strats=[AtomStrategy(), GBrute(["X", "Pq", "Ps", "A"])], name="flat")
        if cfg["db"] == "RuleDBForest":
            from comb_spec_searcher.rule_db import RuleDBForest

            return GL("R", sig), flat, RuleDBForest(reverse=True)
        return GL("R", sig), flat, DBS[cfg["db"]]()
    outer = StrategyPack(initial_strats=[GUnion({"R": ("G",) + tuple("C" + str(k) for k in range(len(sig)))})] + wstrats[:1], inferral_strats=[],
                         expansion_strats=[wstrats[1:]] if wstrats else [],
                         ver_strats=[AtomStrategy(), GPackVer(["C"])] + ([GEvenVer(["Ev"])] if wstrats else []), name="outer")
    return GL("R", sig), outer, DBS[cfg["db"]]()
