"""C18 — JSON round trips preserve specifications, rules, packs, strategies, bijections."""
import copy
import json
import random

import common
import rulecheck
import speccheck
import specrun
import upword
from comb_spec_searcher import CombinatorialSpecification, StrategyPack
from comb_spec_searcher.exception import SpecificationNotFound, StrategyDoesNotApply
from comb_spec_searcher.strategies.rule import AbstractRule, EquivalencePathRule, EquivalenceRule, ReverseRule, VerificationRule
from comb_spec_searcher.strategies.strategy import AbstractStrategy, EmptyStrategy
from upword import PW, W

LEVEL_NOTE = (
    "the JSON layout of the rule forms (plain, verification, equivalence, reverse, equivalence path) is modelled in Lean "
    "with a proven round trip (fromJ_toJ) and compared with the shape Python emits; equality after a round trip, and "
    "equal behaviour (children, shifts, terms, objects) of the reloaded value, are decided on the Python objects for every "
    "specification, rule form, pack and strategy the harness produces"
)


def rt(x):
    return json.loads(json.dumps(x))


def form_of(rule):
    """the rule form as a term of the Lean model: strategies and classes are numbered by first appearance"""
    ids = {}

    def num(kind, obj):
        key = (kind, json.dumps(obj.to_jsonable(), sort_keys=True, default=repr))
        return ids.setdefault(key, len(ids))

    def plain(r):
        return f"P({num('s', r.strategy)},{num('c', r.comb_class)},[{','.join(str(num('c', ch)) for ch in r.children)}])"

    def unit(r):
        if isinstance(r, ReverseRule):
            return f"R({plain(r.original_rule)},{r.idx})" if not isinstance(r.original_rule, (EquivalenceRule, ReverseRule)) else None
        if isinstance(r, (EquivalenceRule, EquivalencePathRule, VerificationRule)):
            return None
        return plain(r)

    def single(r):
        if isinstance(r, VerificationRule):
            return f"V({num('s', r.strategy)},{num('c', r.comb_class)})"
        if isinstance(r, EquivalenceRule):
            u = unit(r.original_rule)
            return f"E({u})" if u else None
        u = unit(r)
        return f"U({u})" if u else None

    if isinstance(rule, EquivalencePathRule):
        parts = [single(r) for r in rule.rules]
        return None if None in parts else "T([" + ";".join(parts) + "])"
    return single(rule)


def shape(j):
    """canonical shape of a rule's JSON: rule class names and nesting, strategies/classes numbered by first appearance"""
    ids = {}

    def num(kind, d):
        key = (kind, json.dumps(d, sort_keys=True))
        return ids.setdefault(key, len(ids))

    def go(d):
        rc = d["rule_class"]
        if rc == "Rule":
            return f"P({num('s', d['strategy'])},{num('c', d['comb_class'])},[{','.join(str(num('c', c)) for c in d['children'])}])"
        if rc == "VerificationRule":
            return f"V({num('s', d['strategy'])},{num('c', d['comb_class'])})"
        if rc == "EquivalenceRule":
            return f"E({go(d['original_rule'])})"
        if rc == "ReverseRule":
            return f"R({go(d['original_rule'])},{d['idx']})"
        if rc == "EquivalencePathRule":
            return "T([" + ";".join(wrap(r) for r in d["rules"]) + "])"
        return f"?{rc}"

    def wrap(d):
        s = go(d)
        return s if s[0] in "VET" else f"U({s})"

    return wrap(j)


# ------------------------------------------------------------------ specifications
def spec_worker(args):
    import signal

    signal.signal(signal.SIGALRM, speccheck._alarm)
    signal.alarm(40)
    try:
        return _spec_worker(args)
    except speccheck.Timeout:
        return {"cfg": args[0], "status": "timeout", "problems": []}
    finally:
        signal.alarm(0)


def _spec_worker(args):
    cfg, N = args
    out = {"cfg": cfg, "problems": [], "forms": []}
    specrun.quiet()
    try:
        root, spec, searcher = specrun.search(cfg)
    except SpecificationNotFound:
        out["status"] = "nospec"
        return out
    except speccheck.Timeout:
        raise
    except Exception as exc:  # noqa: BLE001
        out["status"] = "exc"
        return out
    out["status"] = "spec"
    try:
        for touch in (False, True):
            if touch:  # counting first creates the lazily added empty rules
                for n in range(N + 1):
                    spec.get_terms(n)
                for rule in list(spec):
                    for ch in rule.children:
                        spec.get_rule(ch)
            # the documented contract is from_dict(x.to_jsonable()) == x: also without the detour through JSON text (the
            # loader consumes the dictionary it is given), and dumping must still work afterwards
            try:
                direct = CombinatorialSpecification.from_dict(spec.to_jsonable())
                if not direct == spec:
                    out["problems"].append(("spec-direct-roundtrip-not-equal", "after counting" if touch else "fresh"))
            except Exception as exc:  # noqa: BLE001
                out["problems"].append(("spec-direct-roundtrip-raises", specrun.exc_info(exc)))
            j = rt(spec.to_jsonable())
            if sorted(j) != ["root", "rules"] or not isinstance(j["rules"], list):  # the layout modelled by specToJ (JsonSpec.lean)
                out["layout"] = f"specification JSON has keys {sorted(j)}"
            back = CombinatorialSpecification.from_dict(copy.deepcopy(j))
            tag = "after counting" if touch else "fresh"
            if not back == spec:
                why = []
                if back.root != spec.root:
                    why.append("root differs")
                for c in set(back.rules_dict) ^ set(spec.rules_dict):
                    why.append(f"class only on one side: {c!r}")
                for c in set(back.rules_dict) & set(spec.rules_dict):
                    if back.rules_dict[c] != spec.rules_dict[c]:
                        why.append(f"rule differs for {c!r}: {type(spec.rules_dict[c]).__name__} strategy {spec.rules_dict[c].strategy!r}")
                out["problems"].append(("spec-roundtrip-not-equal", f"{tag}: {why[:3]}"))
            # "the same rules for the same classes": == of rules does not look at the children, so they are compared here, with
            # the labels the specification gives its classes
            for c in set(back.rules_dict) & set(spec.rules_dict):
                rb, rs = back.rules_dict[c], spec.rules_dict[c]
                if tuple(rb.children) != tuple(rs.children):
                    out["problems"].append(("spec-roundtrip-rule-children-differ", f"{tag}: {c!r}: {rs.children!r} -> {rb.children!r}"))
                    break
                if back.get_label(c) != spec.get_label(c):
                    out["problems"].append(("spec-roundtrip-labels-differ", f"{tag}: {c!r}: {spec.get_label(c)} -> {back.get_label(c)}"))
                    break
            if [specrun.st(back.get_terms(n)) for n in range(N + 1)] != [specrun.st(spec.get_terms(n)) for n in range(N + 1)]:
                out["problems"].append(("spec-roundtrip-counts-differ", tag))
            if rt(back.to_jsonable()) != j:
                out["problems"].append(("spec-roundtrip-json-not-stable", tag))
        # the same specification with its equivalence paths taken apart (group_equiv=False, a public option of the constructor):
        # it must come back as it was dumped, not regrouped
        from comb_spec_searcher.strategies.rule import EquivalencePathRule

        if any(isinstance(r, EquivalencePathRule) for r in spec):
            flat_rules = []
            for r in spec:
                flat_rules.extend(r.rules if isinstance(r, EquivalencePathRule) else [r])
            flat = CombinatorialSpecification(spec.root, flat_rules, group_equiv=False)
            out["flat"] = True
            fj = rt(flat.to_jsonable())
            fback = CombinatorialSpecification.from_dict(copy.deepcopy(fj))
            if not (fback == flat and flat == fback):
                out["problems"].append(("ungrouped-spec-roundtrip-not-equal", "group_equiv=False"))
            elif sorted((repr(c), type(r).__name__) for c, r in fback.rules_dict.items()) != \
                    sorted((repr(c), type(r).__name__) for c, r in flat.rules_dict.items()):
                out["problems"].append(("ungrouped-spec-roundtrip-rule-types-differ", "group_equiv=False"))
            elif rt(fback.to_jsonable()) != fj:
                out["problems"].append(("ungrouped-spec-roundtrip-json-not-stable", "group_equiv=False"))
        for r in spec:
            f = form_of(r)
            if f is not None:
                out["forms"].append((f, shape(rt(r.to_jsonable()))))
        pack = searcher.strategy_pack
        # the same pack with empty expansion sets (placeholder levels) before / between / after its own: levels and their order are
        # part of the pack
        exp = [list(x) for x in pack.expansion_strats]
        for padded in ([[]] + exp, exp + [[]], [[]] + exp + [[], []]):
            pk = StrategyPack(initial_strats=list(pack.initial_strats), inferral_strats=list(pack.inferral_strats), expansion_strats=padded,
                              ver_strats=list(pack.ver_strats), name=pack.name, symmetries=list(pack.symmetries), iterative=pack.iterative)
            pb = StrategyPack.from_dict(rt(pk.to_jsonable()))
            if not (pb == pk and pk == pb) or [len(x) for x in pb.expansion_strats] != [len(x) for x in pk.expansion_strats]:
                out["problems"].append(("pack-with-empty-expansion-set-roundtrip-not-equal",
                                        f"{[len(x) for x in pk.expansion_strats]} -> {[len(x) for x in pb.expansion_strats]}"))
                break
        pj = rt(pack.to_jsonable())
        if sorted(pj) != sorted(["name", "initial_strats", "inferral_strats", "expansion_strats", "ver_strats", "symmetries", "iterative"]) \
                or not all(isinstance(x, list) for x in pj["expansion_strats"]):  # the layout modelled by packToJ
            out["layout"] = f"pack JSON has keys {sorted(pj)}"
        if not StrategyPack.from_dict(rt(pack.to_jsonable())) == pack:
            out["problems"].append(("pack-roundtrip-not-equal", repr(pack.name)))
    except speccheck.Timeout:
        raise
    except Exception as exc:  # noqa: BLE001
        out["problems"].append(("json-roundtrip-raises", specrun.exc_info(exc)))
    return out


# ------------------------------------------------------------------ rule forms, strategies
def form_worker(args):
    seed, count, N = args
    rnd = random.Random(seed)
    specrun.quiet()
    res = []
    for c, mode in rulecheck.classes(rnd, count):
        cand = []
        for s in rulecheck.strategies(mode):
            # strategies: round trip, copy, equality by settings only
            try:
                s2 = AbstractStrategy.from_dict(rt(s.to_jsonable()))
                if not (s2 == s and s == s2):
                    res.append({"rule": repr(s), "form": "strategy", "problems": [("strategy-roundtrip-not-equal", repr(s))]})
                if not copy.copy(s) == s:
                    res.append({"rule": repr(s), "form": "strategy", "problems": [("strategy-copy-not-equal", repr(s))]})
            except Exception as exc:  # noqa: BLE001
                res.append({"rule": repr(s), "form": "strategy", "problems": [("strategy-roundtrip-raises", specrun.exc_info(exc))]})
            try:
                rule = s(c)
            except StrategyDoesNotApply:
                continue
            cand += list(rulecheck.forms(rule))
        cand += rulecheck.paths(c, mode, rnd)
        for name, r in cand:
            o = {"rule": f"{type(r).__name__} {r.comb_class!r} via {r.strategy!r}", "form": name, "problems": []}
            try:
                j = rt(r.to_jsonable())
                back = AbstractRule.from_dict(copy.deepcopy(j))
                if not (back == r and r == back) or type(back) is not type(r):
                    o["problems"].append(("rule-roundtrip-not-equal", name))
                if tuple(back.children) != tuple(r.children) or tuple(back.shifts()) != tuple(r.shifts()):
                    o["problems"].append(("rule-roundtrip-children-or-shifts-differ", name))
                if isinstance(r, ReverseRule) and back.idx != r.idx:
                    o["problems"].append(("rule-roundtrip-idx-lost", name))
                if not r.comb_class.is_empty():
                    for rr in (r, back):
                        rr.subterms = tuple((lambda ch: (lambda n: upword.true_terms(ch, n)))(ch) for ch in rr.children)
                    try:
                        a = [specrun.st(r.get_terms(n)) for n in range(N + 1)]
                        b = [specrun.st(back.get_terms(n)) for n in range(N + 1)]
                        if a != b:
                            o["problems"].append(("rule-roundtrip-terms-differ", name))
                    except NotImplementedError:
                        pass
                f = form_of(r)
                if f is not None:
                    o["formpair"] = (f, shape(j))
            except Exception as exc:  # noqa: BLE001
                o["problems"].append(("rule-roundtrip-raises", specrun.exc_info(exc)))
            res.append(o)
    return res


def strategy_equality_cases():
    """pairs that must be equal (same kind and settings, different creation routes) / unequal (different settings)"""
    eq, ne = [], []
    eq.append(("EmptyStrategy() vs EmptyStrategy[PW, W]()", EmptyStrategy(), EmptyStrategy[PW, W]()))
    from comb_spec_searcher import AtomStrategy

    try:
        eq.append(("AtomStrategy() vs AtomStrategy[PW, W]()", AtomStrategy(), AtomStrategy[PW, W]()))
    except TypeError:
        pass
    eq.append(("Peel('') vs from_dict", upword.Peel(""), AbstractStrategy.from_dict(rt(upword.Peel("").to_jsonable()))))
    eq.append(("Rot copy", upword.Rot("rename", 1, False), copy.copy(upword.Rot("rename", 1, False))))
    eq.append(("PAtom vs PAtom", upword.PAtom(), upword.PAtom()))
    ne.append(("Expand('') vs Expand('rename')", upword.Expand(""), upword.Expand("rename")))
    ne.append(("Rot one-way vs two-way", upword.Rot("", 1, False), upword.Rot("", 1, True)))
    ne.append(("Expand vs Peel", upword.Expand(""), upword.Peel("")))
    ne.append(("PrefVer prefixes", upword.PrefVer(["a"]), upword.PrefVer(["b"])))
    return eq, ne


def run(tier, seed, factor=1):
    res = common.Result("C18")
    res.rule = ("(a) specifications from real searches (all rule forms, lazily added empty rules, before and after counting) and their "
                "packs: from_dict(json(to_jsonable())) == original, same counts, stable JSON; (b) every rule form of C09's universe and "
                "every strategy: round trip equality both ways, same type/children/shifts/idx/terms, JSON shape vs the Lean model; "
                "(c) strategy equality across creation routes; non-trivial = a specification / a rule form; distinct by config / (rule, form)")
    rnd = random.Random(seed * 1000003 + 18)
    N = common.scale(tier, 5, 7)
    cfgs = speccheck.make_configs(rnd, common.scale(tier, 160, 2000) * factor)
    cfgs += [specrun.rand_config(rnd, "packver") for _ in range(common.scale(tier, 24, 200) * factor)]
    drnd = random.Random(seed * 1299709 + 18)
    for _ in range(common.scale(tier, 24, 200) * factor):  # verification rules that have a child
        c = specrun.rand_config(drnd, None)
        c.update(depver=[drnd.choice(["a", "b", "ab", "ba", "aa"])], prefver=None, packver=None, rot=False, sep=None, reverse_needed=False, prefix="",
                 iterative=False)
        cfgs.append(c)
    outs = specrun.pool_map(spec_worker, [(c, N) for c in cfgs])
    specrun.quiet()
    pairs = []
    for o in outs:
        res.case(("cfg", repr(sorted(o["cfg"].items()))), nontrivial=o["status"] == "spec")
        res.dist["spec:" + o["status"]] += 1
        if o["status"] == "spec":
            res.traces += 1
            pairs += [(p, o["cfg"]) for p in o["forms"]]
            res.dist["spec also round-tripped with its paths taken apart (group_equiv=False)"] += 1 if o.get("flat") else 0
        if o.get("layout"):
            res.diff("JSON layout of specifications / packs vs the Lean model (specToJ, packToJ)", o["cfg"], "root,rules / name,*_strats,symmetries,iterative", o["layout"])
        for sig, detail in o["problems"]:
            res.fail(sig, o["cfg"], detail)
    jobs = [(seed * 983 + i, common.scale(tier, 5, 15), N) for i in range(common.scale(tier, 48, 300) * factor)]
    fouts = [o for part in specrun.pool_map(form_worker, jobs) for o in part]
    specrun.quiet()
    for o in fouts:
        res.case((o["rule"], o["form"]))
        res.dist["form=" + o["form"].split("-")[0][:4] + ("-equiv" if "equiv" in o["form"] else "")] += 1
        res.traces += 1
        for sig, detail in o["problems"][:1]:
            res.fail(sig, {"rule": o["rule"], "form": o["form"]}, detail)
        if "formpair" in o:
            pairs.append((o["formpair"], {"rule": o["rule"], "form": o["form"]}))
    # the Lean model: toJ of the form must have the shape Python emitted, and fromJ (toJ f) = f
    lean = common.run_driver("C18", "\n".join(p[0][0] for p in pairs) + "\n") if pairs else []
    for (p, inp), line in zip(pairs, lean):
        if line != "rt=1 " + p[1]:
            res.diff("JSON shape of the rule form vs Lean toJ / round trip", inp, line[:300], ("rt=1 " + p[1])[:300])
    # bijections: the reloaded bijection maps every object like the original (the C12 machinery, JSON-related verdicts only)
    from props import c12

    bouts = specrun.pool_map(c12.worker, [(seed * 7877 + 500 + i, 3, 5) for i in range(common.scale(tier, 48, 200) * factor)])
    specrun.quiet()
    bj = [x for o in bouts for x in o.get("bijson", [])]
    got = common.run_driver("BijJson", "\n".join(x[0] for x in bj) + "\n") if bj else []
    assert len(got) == len(bj)
    for (ent, expect, inp), line in zip(bj, got):
        res.dist["bijection matchings: JSON form vs the Lean model (BijJson)"] += 1
        if line != expect:
            res.diff("JSON form of a bijection's matching (classes array, nested dictionary, rebuilt matching) vs the Lean model", inp,
                     line[:400], expect[:400])
    for o in bouts:
        res.case(("bijections", o["seed"], o["bijections"]), nontrivial=o["bijections"] >= 1)
        res.dist["bijections round-tripped through JSON"] += o["bijections"]
        for sig, inp, d in o["problems"]:
            if "json" in sig or "reloaded" in sig or "reloaded" in str(d):
                res.fail("bijection:" + sig, inp, d)
    eq, ne = strategy_equality_cases()
    for name, a, b in eq:
        res.case(("streq", name))
        if not (a == b and b == a):
            res.fail("strategy-equality-depends-on-creation-route", {"pair": name}, f"{a!r} != {b!r}; dicts {a.__dict__} vs {b.__dict__}")
    for name, a, b in ne:
        res.case(("strne", name))
        if a == b:
            res.fail("strategies-with-different-settings-equal", {"pair": name}, "")
    return res


def search(tier, seed):
    return run(tier, seed + 1000, factor=2)


def replay(case):
    inp = case["input"]
    if "pair" in inp:
        eq, _ = strategy_equality_cases()
        for name, a, b in eq:
            if name == inp["pair"] and not (a == b and b == a):
                return {"signature": "strategy-equality-depends-on-creation-route", "input": inp, "detail": ""}
        return None
    if "alpha" in inp:
        o = spec_worker((inp, 5))
        if o["problems"]:
            return {"signature": o["problems"][0][0], "input": inp, "detail": o["problems"][0][1]}
        return None
    return "re-run the check with the recorded seed"
