"""C07 — object generation yields exactly the objects of the class, each once."""
import pickle
import random
from collections import Counter

import common
import rulecheck
import speccheck
import specrun
from comb_spec_searcher.exception import SpecificationNotFound, StrategyDoesNotApply
from comb_spec_searcher.strategies.rule import EquivalencePathRule, EquivalenceRule, ReverseRule
import upword
from upword import W, true_objects

LEVEL_NOTE = (
    "sol_unique (any term type, here lists of objects), comps_complete/comps_sound/comps_nodup (every bounded composition "
    "is produced exactly once) and the round-trip theorems of the derived forms' maps (path_roundtrip, path_roundtrip', "
    "reverse_roundtrip) are proven; generated objects of every class of every returned specification are compared with "
    "brute force as multisets, their number with the reported count; every derived form's maps are run on all objects and, "
    "for equivalence paths, compared with the Lean composition of the steps' dumped tables"
)


# ------------------------------------------------------------------ (a) specifications
def spec_worker(args):
    cfg, N = args
    out = {"cfg": cfg, "problems": [], "nclasses": 0}
    specrun.quiet()
    try:
        root, spec, _ = specrun.search(cfg)
    except SpecificationNotFound:
        out["status"] = "nospec"
        return out
    except Exception as exc:  # noqa: BLE001
        out["status"] = "exc"
        out["exc"] = specrun.exc_info(exc)
        return out
    out["status"] = "spec"
    try:
        blob = pickle.dumps(spec)
    except Exception:  # noqa: BLE001
        blob = None
    try:
        for rule in list(spec):
            for ch in rule.children:
                spec.get_rule(ch)
        for c, rule in list(spec.rules_dict.items()):
            out["nclasses"] += 1
            for n in range(N + 1):
                got = {k: sorted(v) for k, v in rule.get_objects(n).items() if v}
                want = {k: sorted(v) for k, v in true_objects(c, n).items()}
                if got != want:
                    missing = sum((Counter(want.get(k, [])) - Counter(got.get(k, []))).total() for k in set(want) | set(got))
                    extra = sum((Counter(got.get(k, [])) - Counter(want.get(k, []))).total() for k in set(want) | set(got))
                    out["problems"].append(("objects-ne-class", f"{c!r} n={n}: {missing} missing, {extra} foreign or repeated; got {str(got)[:200]}"))
                    break
                cnt = {k: v for k, v in rule.get_terms(n).items() if v}
                if {k: len(v) for k, v in got.items()} != cnt:
                    out["problems"].append(("objects-count-ne-terms", f"{c!r} n={n}"))
                    break
        # the public generator on the root, per parameter value
        for n in range(N + 1):
            for params in root.possible_parameters(n):
                got = sorted(spec.generate_objects_of_size(n, **params))
                want = sorted(root.objects_of_size(n, **params))
                if got != want:
                    out["problems"].append(("generate_objects_of_size-ne-class", f"n={n} {params}: {got[:6]} vs {want[:6]}"))
                    break
                if len(params) > 1:  # keyword arguments in another order name the same parameter values
                    got2 = sorted(spec.generate_objects_of_size(n, **dict(reversed(list(params.items())))))
                    if got2 != want:
                        out["problems"].append(("generate_objects_of_size-depends-on-keyword-order", f"n={n} {params}: {got2[:6]} vs {want[:6]}"))
                        break
        # generation interrupted part-way (an exception out of a backward map at its k-th call) and asked again
        if blob is not None and not out["problems"]:
            out["problems"] += interrupted_generation(blob, root, min(N, 4))
    except NotImplementedError:
        out["status"] = "maps-not-implemented"  # reverse rules (complement / quotient) do not generate objects
        out["problems"] = []
    except Exception as exc:  # noqa: BLE001
        out["problems"].append(("object-generation-raises", specrun.exc_info(exc)))
    return out


class _Cut(Exception):
    pass


def interrupted_generation(blob, root, n):
    """for k = 1, 2, ...: a fresh copy of the specification, generate_objects_of_size(n) with the k-th call of a backward
    map raising, then the same question again without the fault: the answer must be the objects of the class"""
    from comb_spec_searcher.strategies.strategy import DisjointUnionStrategy

    problems = []
    want = sorted(map(str, root.words(n)))
    targets = [(DisjointUnionStrategy, "backward_map"), (upword.Peel, "backward_map"), (upword.Rot, "backward_map"), (upword.Swap, "backward_map")]
    saved = [(cls, name, cls.__dict__[name]) for cls, name in targets if name in cls.__dict__]
    for k in (1, 2, 3, 4, 6, 9, 14, 22, 35):
        state = {"calls": 0, "armed": True}

        def wrap(orig):
            def f(self, *a, **kw):
                state["calls"] += 1
                if state["armed"] and state["calls"] == k:
                    raise _Cut()
                return orig(self, *a, **kw)
            return f

        for cls, name, orig in saved:
            setattr(cls, name, wrap(orig))
        try:
            sp = pickle.loads(blob)

            def gen():
                return sorted(str(w) for params in root.possible_parameters(n) for w in sp.generate_objects_of_size(n, **params))

            try:
                gen()
                reached = False
            except _Cut:
                reached = True
            state["armed"] = False
            if reached:
                got = gen()
                if got != want:
                    problems.append(("objects-after-an-interrupted-generation-ne-class",
                                     f"n={n}, interrupted at backward-map call {k}: {len(got)} objects instead of {len(want)}"))
                    break
        finally:
            for cls, name, orig in saved:
                setattr(cls, name, orig)
        if not reached:
            break
    return problems


# ------------------------------------------------------------------ (b) maps of the derived forms
def form_worker(args):
    seed, count, N = args
    rnd = random.Random(seed)
    specrun.quiet()
    res = []
    for c, mode in rulecheck.classes(rnd, count):
        cand = []
        for s in rulecheck.strategies(mode):
            try:
                rule = s(c)
            except StrategyDoesNotApply:
                continue
            for name, r in rulecheck.forms(rule):
                if name.startswith("rev") and not name.endswith("equiv") and len(r.original_rule.non_empty_children()) != 1:
                    continue  # the library implements the maps of a reverse rule only for equivalences
                cand.append((name, r))
        cand += rulecheck.paths(c, mode, rnd)
        for name, r in cand:
            if r.comb_class.is_empty():
                continue
            o = {"form": name, "rule": f"{type(r).__name__} {r.comb_class!r} -> {r.children!r} via {r.strategy!r}", "problems": [], "nobj": 0}
            try:
                ids = {}

                def oid(w):
                    return ids.setdefault(str(w), len(ids))

                xs, ys, pyf, pyb = [], [], [], []
                for n in range(N + 1):
                    for w in r.comb_class.words(n):
                        o["nobj"] += 1
                        parts = r.forward_map(W(w))
                        if len(parts) != len(r.children):
                            o["problems"].append(("forward-wrong-arity", str(w)))
                            break
                        for p, ch in zip(parts, r.children):
                            if p is not None and (str(p) not in set(map(str, ch.words(len(p))))):
                                o["problems"].append(("part-outside-child", f"{w} -> {p} not in {ch!r}"))
                        back = list(r.backward_map(parts))
                        if [str(b) for b in back] != [str(w)]:
                            o["problems"].append(("backward-of-forward-ne-object", f"{w} -> {parts} -> {back}"))
                        if isinstance(r, EquivalencePathRule):
                            xs.append(oid(w)); pyf.append(oid(parts[0]))
                    if o["problems"]:
                        break
                # the other direction: every tuple of the only child of a unary form comes back to itself
                if len(r.children) == 1 and not o["problems"]:
                    for n in range(N + 1):
                        for w in r.children[0].words(n):
                            back = list(r.backward_map((W(w),)))
                            if len(back) != 1:
                                o["problems"].append(("backward-not-single-valued", f"{w} -> {back}"))
                                break
                            if str(r.forward_map(back[0])[0]) != str(w):
                                o["problems"].append(("forward-of-backward-ne-object", f"{w} -> {back[0]} -> {r.forward_map(back[0])}"))
                                break
                            if isinstance(r, EquivalencePathRule):
                                ys.append(oid(w)); pyb.append(oid(back[0]))
                if isinstance(r, EquivalencePathRule) and not o["problems"]:
                    steps = []
                    for st in r.rules:
                        f, b = [], []
                        for n in range(N + 1):
                            for w in st.comb_class.words(n):
                                img = st.forward_map(W(w))[0]
                                f.append(f"{oid(w)}>{oid(img)}")
                            for w in st.children[0].words(n):
                                pre = list(st.backward_map((W(w),)))
                                if len(pre) == 1:
                                    b.append(f"{oid(w)}>{oid(pre[0])}")
                        steps.append((",".join(f) or "-") + "/" + (",".join(b) or "-"))
                    o["line"] = ";".join(steps) + " " + (",".join(map(str, xs)) or "-") + " | " + (",".join(map(str, ys)) or "-")
                    o["expect"] = ",".join(map(str, pyf)) + " | " + ",".join(map(str, pyb))
            except NotImplementedError:
                continue
            except Exception as exc:  # noqa: BLE001
                o["problems"].append(("object-map-raises", specrun.exc_info(exc)))
            res.append(o)
    return res


# ------------------------------------------------------------------ (c) object generation at one rule vs the Lean model
def objgen_eval(name, r, N):
    """one union / product rule form: the real `get_objects` on brute-force children (dictionaries in a fixed order) against
    the Lean model of get_sub_objects + _ensure_level_objects (Driver/ObjGen: same dictionary, same order)"""
    from comb_spec_searcher.strategies.constructor import CartesianProduct, DisjointUnion

    con = r.constructor
    if type(con) not in (DisjointUnion, CartesianProduct):
        return None
    o = {"form": name, "rule": f"{type(r).__name__} {r.comb_class!r} -> {r.children!r} via {r.strategy!r}", "kind": type(con).__name__}
    ids = [dict() for _ in r.children]
    tables = [dict() for _ in r.children]
    for j, ch in enumerate(r.children):
        for s in range(N + 1):
            d = {}
            for k, ws in true_objects(ch, s).items():
                d[k] = [W(w) for w in ws]
                for w in ws:
                    ids[j].setdefault(str(w), len(ids[j]))
            tables[j][s] = d

    def provider(j):
        return lambda s: tables[j][s]

    r.subobjects = tuple(provider(j) for j in range(len(r.children)))
    r.objects_cache = []
    tabs = "#".join("+".join(f"{s}@" + "/".join(".".join(map(str, k)) + "=" + ",".join(str(ids[j][str(w)]) for w in ws)
                                                 for k, ws in tables[j][s].items()) for s in range(N + 1))
                    for j in range(len(r.children)))
    o["line"] = f"{N} {specrun.rule_record(r, 0, lambda c: 0, N)} {tabs}"
    py = []
    for n in range(N + 1):
        try:
            d = r.get_objects(n)
        except AssertionError:
            py.append("none")
            continue
        ents = []
        for key, objs in d.items():
            items = []
            for ob in objs:
                parts = r.forward_map(ob)
                if type(con) is DisjointUnion:
                    (j,) = [i for i, q in enumerate(parts) if q is not None]
                    items.append(f"{j}:{ids[j][str(parts[j])]}")
                else:
                    items.append(".".join(str(ids[j][str(q)]) for j, q in enumerate(parts)))
            ents.append(".".join(map(str, key)) + "=" + ",".join(items))
            o["nobj"] = o.get("nobj", 0) + len(objs)
        py.append("/".join(ents) or "-")
    o["expect"] = " | ".join(py)
    return o


def objgen_worker(args):
    seed, count, N = args
    rnd = random.Random(seed)
    specrun.quiet()
    res = []
    for c, mode in rulecheck.classes(rnd, count, products=(seed % 2 == 0)):
        for s in rulecheck.strategies(mode):
            try:
                rule = s(c)
            except StrategyDoesNotApply:
                continue
            for name, r in rulecheck.forms(rule):
                if name not in ("plain", "equiv") or r.comb_class.is_empty():
                    continue
                try:
                    o = objgen_eval(name, r, N)
                except NotImplementedError:
                    continue
                except Exception as exc:  # noqa: BLE001
                    o = {"form": name, "rule": f"{type(r).__name__} {r.comb_class!r} -> {r.children!r} via {r.strategy!r}",
                         "exc": specrun.exc_info(exc), "kind": "?"}
                if o is not None:
                    o["desc"] = {"class": c.to_jsonable(), "sw": isinstance(c, upword.SW), "mode": mode, "strategy": type(s).__name__, "form": name}
                    res.append(o)
        # equivalence paths: one union whose parameter map is the composition of the steps' maps
        for name, r in rulecheck.paths(c, mode, rnd):
            if r.comb_class.is_empty():
                continue
            try:
                o = objgen_eval("path", r, N)
            except NotImplementedError:
                continue
            except Exception as exc:  # noqa: BLE001
                o = {"form": "path", "rule": f"{type(r).__name__} {r.comb_class!r} -> {r.children!r} via {r.strategy!r}",
                     "exc": specrun.exc_info(exc), "kind": "?"}
            if o is not None:
                res.append(o)
    return res


def run(tier, seed, factor=1):
    res = common.Result("C07")
    res.rule = ("(a) real searches as in C01 (object-capable universe): for every class of every returned specification and n <= N the "
                "generated objects per parameter key vs brute force as multisets, and vs the reported counts; the public "
                "generate_objects_of_size on the root per parameter value; (b) every derived rule form of C09's universe that implements "
                "object maps: forward/backward round trips on all objects <= N, parts inside the children; equivalence paths additionally "
                "against the Lean composition of the steps' tables; non-trivial = >=3 classes / >=1 object; distinct by config / (rule, form)")
    rnd = random.Random(seed * 1000003 + 7)
    N = common.scale(tier, 5, 6)
    cfgs = speccheck.make_configs(rnd, common.scale(tier, 200, 2500) * factor)
    cfgs += [specrun.revnames_config(rnd) for _ in range(max(24, len(cfgs) // 10))]  # children listing their statistics in another order
    prnd = random.Random(seed * 6700417 + 7)
    cfgs += [specrun.pad_config(prnd) for _ in range(max(16, len(cfgs) // 12))]  # equivalences whose non-empty child is not child 0
    outs = specrun.pool_map(spec_worker, [(c, N) for c in cfgs])
    specrun.quiet()
    for o in outs:
        res.case(("cfg", repr(sorted(o["cfg"].items()))), nontrivial=o["nclasses"] >= 3)
        res.dist["spec:" + o["status"]] += 1
        for t in specrun.cfg_tags(o["cfg"]):
            res.dist[t] += 1
        if o["status"] == "spec":
            res.traces += 1
        for sig, detail in o["problems"]:
            res.fail(sig, o["cfg"], detail)
    per = common.scale(tier, 6, 12)
    jobs = [(seed * 977 + i, per, N) for i in range(common.scale(tier, 48, 300) * factor)]
    fouts = [o for part in specrun.pool_map(form_worker, jobs) for o in part]
    specrun.quiet()
    lines = [o["line"] for o in fouts if "line" in o]
    lean = common.run_driver("C07", "\n".join(lines) + "\n") if lines else []
    k = 0
    for o in fouts:
        res.case((o["rule"], o["form"]), nontrivial=o["nobj"] >= 1)
        res.dist[f"form={o['form'].split('-')[0][:4]}{'-equiv' if 'equiv' in o['form'] else ''}"] += 1
        res.traces += 1
        for sig, detail in o["problems"][:1]:
            res.fail(sig, {"rule": o["rule"], "form": o["form"]}, detail)
        if "line" in o:
            if lean[k].replace(" ", "") != o["expect"].replace(" ", ""):
                res.diff("equivalence path maps vs Lean composition of the steps", {"rule": o["rule"]}, lean[k][:300], o["expect"][:300])
            k += 1
    # (c) object generation of single union / product rules against the Lean model
    jobs = [(seed * 1409 + i, per, N) for i in range(common.scale(tier, 48, 300) * factor)]
    gouts = [o for part in specrun.pool_map(objgen_worker, jobs) for o in part]
    specrun.quiet()
    glines = [o["line"] for o in gouts if "line" in o]
    glean = common.run_driver("ObjGen", "\n".join(glines) + "\n") if glines else []
    assert len(glean) == len(glines)
    k = 0
    for o in gouts:
        res.case(("objgen", o["rule"], o["form"]), nontrivial=o.get("nobj", 0) >= 1)
        res.dist[f"objgen {o['kind']} form={o['form']}"] += 1
        res.traces += 1
        if "exc" in o:
            res.fail("object-generation-of-a-rule-raises", {"rule": o["rule"], "form": o["form"], "desc": o.get("desc")}, o["exc"])
            continue
        if glean[k] != o["expect"]:
            res.diff("rule.get_objects vs Lean model of get_sub_objects (ObjGen)", {"rule": o["rule"], "form": o["form"], "desc": o.get("desc")},
                     glean[k][:400], o["expect"][:400])
        k += 1
    return res


def search(tier, seed):
    return run(tier, seed + 1000, factor=2)


def replay(case):
    inp = case["input"]
    if "alpha" not in inp:
        return "re-run the check with the recorded seed (rule forms are regenerated from it)"
    o = spec_worker((inp, 5))
    return {"signature": o["problems"][0][0], "input": inp, "detail": o["problems"][0][1]} if o["problems"] else None
