"""C11 — forest extraction returns a minimal, closed, productive rule set."""
import random
import types

import common
from comb_spec_searcher.rule_db.forest import ForestRuleExtractor, TableMethod
from comb_spec_searcher.typing import ForestRuleKey, RuleBucket

LEVEL_NOTE = (
    "the checker of an extracted rule set is proven (extractOKB_sound: productive, one rule per class, closed, "
    "1-minimal; reverse_needed_sound) on top of the verified decision procedure pumps_iff; the second phase of the "
    "greedy minimisation is proven for an abstract monotone test (phase2G_*); the Python extractor is compared with the "
    "Lean model of _minimize (same keys, same order) and its output is judged by the proven checker"
)

B = {"R": RuleBucket.REVERSE, "N": RuleBucket.NORMAL, "E": RuleBucket.EQUIV, "V": RuleBucket.VERIFICATION}
BI = {v: k for k, v in B.items()}


def sk(r):
    return f"{r.parent}|{','.join(map(str, r.children))}|{','.join(map(str, r.shifts))}|{BI[r.bucket]}"


def fmt(keys):
    return ";".join(map(sk, keys)) or "-"


def rand_universe(rnd):
    n = rnd.randint(1, 6)
    S = rnd.choice([0, 1, 1, 2, 3])
    rules = []
    for _ in range(rnd.randint(1, 12)):
        k = rnd.choice([0, 1, 1, 2, 2, 3])
        b = B["V"] if k == 0 and rnd.random() < 0.7 else B[rnd.choice("RNNE")]
        cs = tuple(rnd.randrange(n) for _ in range(k))
        ss = tuple(rnd.randint(-S, S) if rnd.random() < 0.5 else rnd.randint(0, S) for _ in range(k))
        rules.append(ForestRuleKey(rnd.randrange(n), cs, ss, b))
    if rnd.random() < 0.3 and rules:  # same (parent, children), different shifts/bucket
        r = rnd.choice(rules)
        rules.insert(rnd.randrange(len(rules) + 1),
                     ForestRuleKey(r.parent, r.children, tuple(s + rnd.choice([0, 1]) for s in r.shifts), B[rnd.choice("RNE")] if r.children else r.bucket))
    return n, rules


def chain_universe(rnd):
    """dependency chains with unit shifts, a verified end, and a few shortcuts with large shifts (a class that is ahead of its
    child when the large shift arrives; the reverse bucket somewhere on the way), inserted in a random order"""
    n = rnd.randint(4, 7)
    order = list(range(n))
    rnd.shuffle(order)
    rules = [ForestRuleKey(order[-1], (), (), B["V"])]
    for i in range(n - 1):
        rules.append(ForestRuleKey(order[i], (order[i + 1],), (rnd.choice([0, 0, 1, 1, 2]),), B[rnd.choice("NNNRE")]))
    for _ in range(rnd.randint(1, 3)):
        a, b = rnd.randrange(n), rnd.randrange(n)
        rules.append(ForestRuleKey(order[a], (order[b],), (rnd.choice([2, 3, 3, 4, -1, -2]),), B[rnd.choice("NNR")]))
    if rnd.random() < 0.4:
        a, b, c = rnd.randrange(n), rnd.randrange(n), rnd.randrange(n)
        rules.append(ForestRuleKey(order[a], (order[b], order[c]), (rnd.randint(0, 3), rnd.randint(0, 3)), B["N"]))
    rnd.shuffle(rules)
    return n, rules


def extract(rules, root):
    tb = TableMethod()
    for r in rules:
        tb.add_rule_key(r)
    if not tb.is_pumping(root):
        return None
    db = types.SimpleNamespace(table_method=tb)
    ex = ForestRuleExtractor(root, db, None, None)
    return ex


def run_cases(res, cases, tag):
    lines, metas = [], []
    for rules, root in cases:
        hist = {"root": root, "keys": fmt(rules)}
        try:
            ex = extract(rules, root)
            if ex is None:
                continue
            needed = list(ex.needed_rules)
            try:
                ex.check()
            except AssertionError as exc:
                res.fail("extractor-check-asserts", hist, repr(exc))
        except Exception as exc:
            res.case((root, fmt(rules)))
            res.fail("extractor-raises", hist, repr(exc))
            continue
        res.case((root, fmt(rules)), nontrivial=len(rules) >= 3)
        res.dist[f"{tag}:universes with pumping root"] += 1
        if any(r.bucket == RuleBucket.REVERSE for r in needed):
            res.dist[f"{tag}:extraction uses a reverse key"] += 1
        if any(s < 0 for r in rules for s in r.shifts):
            res.dist[f"{tag}:negative shift present"] += 1
        lines.append(f"{root} {fmt(rules)} {fmt(needed)}")
        metas.append((hist, fmt(needed)))
    if not lines:
        return
    out = common.run_driver("C11", "\n".join(lines) + "\n")
    assert len(out) == len(lines)
    for (hist, needed), line in zip(metas, out):
        res.traces += 1
        model, _, flags = line.partition(" | ")
        model = model[len("model "):] or "-"
        fl = dict(x.split("=") for x in flags.split())
        if fl.get("rootpumps") != "1":
            res.diff("TableMethod says the root pumps, lfpRef does not", hist, flags, "rootpumps")
        if fl["ok"] != "1":
            bad = [k for k in ("sub", "prod", "lhs", "closed", "min", "rev") if fl[k] != "1"]
            res.fail("extraction-" + "+".join(bad), hist, {"needed_rules": needed, "clauses": fl})
        if model != needed:
            res.diff("needed_rules vs Lean minimize model", hist, model, needed)


def key_findable(searcher, key):
    """does replaying the pack (and the empty strategy) on the key's own classes yield a rule, or a reverse of a rule, with this
    forest key? (what ForestRuleExtractor._find_rule searches)"""
    from comb_spec_searcher.exception import StrategyDoesNotApply
    from comb_spec_searcher.strategies.strategy import AbstractStrategy, EmptyStrategy, StrategyFactory

    cdb = searcher.classdb
    for lbl in (key.parent,) + tuple(key.children):
        c = cdb.get_class(lbl)
        for st in [EmptyStrategy()] + list(searcher.strategy_pack):
            items = list(st(c)) if isinstance(st, StrategyFactory) else [st]
            for it in items:
                try:
                    r = it(c) if isinstance(it, AbstractStrategy) else it
                except StrategyDoesNotApply:
                    continue
                cands = [r]
                if r.is_reversible():
                    cands += [r.to_reverse_rule(i) for i in range(len(r.children))]
                for rr in cands:
                    try:
                        if rr.forest_key(cdb.get_label, cdb.is_empty) == key:
                            return True
                    except Exception:  # noqa: BLE001
                        pass
    return False


def search_worker(cfg):
    """a real forest search; every needed key must come back as a rule of the pack with that very key"""
    import re
    import signal

    import speccheck
    import specrun
    from comb_spec_searcher import CombinatorialSpecificationSearcher
    from comb_spec_searcher.exception import SpecificationNotFound

    signal.signal(signal.SIGALRM, speccheck._alarm)
    signal.alarm(40)
    out = {"cfg": cfg, "problems": [], "keys": 0, "status": "?"}
    try:
        specrun.quiet()
        root, pack, db = specrun.build(cfg)
        s = CombinatorialSpecificationSearcher(root, pack, ruledb=db, expand_verified=cfg["expand_verified"])
        specrun.quiet()
        try:
            for _ in range(400):
                wp = next(s.classqueue)
                if s.expand_verified or not s.ruledb.is_verified(wp.label):
                    s._expand(s.classdb.get_class(wp.label), wp.label, wp.strategies, wp.inferral)
                if s.ruledb.has_specification():
                    break
        except StopIteration:
            pass
        if not s.ruledb.has_specification():
            out["status"] = "nospec"
            return out
        out["status"] = "spec"
        from comb_spec_searcher.rule_db.forest import ForestRuleExtractor

        ex = ForestRuleExtractor(s.start_label, s.ruledb, s.classdb, s.strategy_pack)
        needed = list(ex.needed_rules)
        out["keys"] = len(needed)
        if len(s.ruledb.table_method._rules) <= 45:  # the Lean side re-runs the fixed point for every test: keep it small
            out["line"] = f"{s.start_label} {fmt(list(s.ruledb.table_method._rules))} {fmt(needed)}"
        out["needed"] = fmt(needed)
        cdb = s.classdb
        for k in needed:
            try:
                r = ex._find_rule(k)
            except RuntimeError as exc:
                sig = "cannot-find-rule-for-key" if key_findable(s, k) else "key-not-findable-from-its-own-classes"
                out["problems"].append((sig, f"{sk(k)}: {str(exc)[:120]}".replace("\n", " ")))
                continue
            if r.forest_key(cdb.get_label, cdb.is_empty) != k:
                out["problems"].append(("rule-found-has-another-key", sk(k)))
    except speccheck.Timeout:
        out["status"] = "timeout"
    except Exception as exc:  # noqa: BLE001
        import specrun as _s

        out["problems"].append(("forest-search-raises", _s.exc_info(exc)))
    finally:
        signal.alarm(0)
    return out


def run(tier, seed, factor=1):
    res = common.Result("C11")
    res.rule = ("random U-int key universes (1-6 classes, 1-12 keys, all four buckets, shifts -3..3, sometimes two keys with equal "
                "(parent, children) but different shifts/bucket), kept when the chosen root pumps, each also in 2 (quick) / 6 (thorough) "
                "shuffled insertion orders; non-trivial = >=3 keys; distinct by (root, key list)")
    rnd = random.Random(seed * 7817 + 11)
    n = common.scale(tier, 2500, 30000) * factor
    cases = []
    while len(cases) < n:
        ncls, rules = rand_universe(rnd)
        tb = TableMethod()
        for r in rules:
            tb.add_rule_key(r)
        roots = [c for c in range(ncls) if tb.is_pumping(c)]
        if not roots:
            continue
        root = rnd.choice(roots)
        cases.append((rules, root))
        for _ in range(common.scale(tier, 2, 6)):
            r2 = rules[:]
            rnd.shuffle(r2)
            cases.append((r2, root))
    run_cases(res, cases, "rand")
    # chains with late large shifts (their own random stream)
    rndc = random.Random(seed * 7817 + 12)
    cases = []
    while len(cases) < n // 2:
        ncls, rules = chain_universe(rndc)
        tb = TableMethod()
        for r in rules:
            tb.add_rule_key(r)
        roots = [c for c in range(ncls) if tb.is_pumping(c)]
        if not roots:
            continue
        root = rndc.choice(roots)
        cases.append((rules, root))
        for _ in range(common.scale(tier, 2, 6)):
            r2 = rules[:]
            rndc.shuffle(r2)
            cases.append((r2, root))
    run_cases(res, cases, "chain")
    # universes recorded by real forest searches (with and without reverse rules), key -> concrete rule
    import speccheck
    import specrun

    rnd2 = random.Random(seed * 1000003 + 11)
    cfgs = []
    for c in speccheck.make_configs(rnd2, common.scale(tier, 150, 2000) * factor):
        c = dict(c, db="RuleDBForest", iterative=False, smallest=False)
        cfgs.append(c)
    # symmetric pattern sets with the letter-exchange symmetry in the pack: classes that are only reached as symmetric images
    # (their rules are reverses of symmetry rules)
    for _ in range(common.scale(tier, 30, 300) * factor):
        c = specrun.rand_config(rnd2, None)
        half = specrun.upword.rand_patterns(rnd2, "ab", 3, 2)
        t = str.maketrans("ab", "ba")
        c.update(alpha="ab", patterns=sorted(set(half) | {p.translate(t) for p in half}), symmetry=True, db="RuleDBForest", iterative=False,
                 smallest=False, reverse=True, params=[], mode="", factory=None, prefver=None, inferral=rnd2.random() < 0.3)
        cfgs.append(c)
    souts = specrun.pool_map(search_worker, cfgs)
    specrun.quiet()
    lines = [o["line"] for o in souts if "line" in o]
    lean = common.run_driver("C11", "\n".join(lines) + "\n") if lines else []
    k = 0
    for o in souts:
        res.case(("cfg", repr(sorted(o["cfg"].items()))), nontrivial=o["keys"] >= 3)
        res.dist["search:" + o["status"]] += 1
        if "line" in o:
            res.traces += 1
            model, _, flags = lean[k].partition(" | ")
            k += 1
            fl = dict(x.split("=") for x in flags.split())
            if fl["ok"] != "1":
                bad = [kk for kk in ("sub", "prod", "lhs", "closed", "min", "rev") if fl[kk] != "1"]
                res.fail("extraction-" + "+".join(bad), o["cfg"], {"needed_rules": o["needed"], "clauses": fl})
            if (model[len("model "):] or "-") != o["needed"]:
                res.diff("needed_rules vs Lean minimize model (recorded universe)", o["cfg"], model[:300], o["needed"][:300])
        seen = set()
        for sig, d in o["problems"]:
            if sig not in seen:
                seen.add(sig)
                res.fail(sig, o["cfg"], d)
    return res


def search(tier, seed):
    return run(tier, seed + 1000, factor=3)


def parse_keys(text):
    out = []
    if text != "-":
        for part in text.split(";"):
            p, cs, ss, b = part.split("|")
            out.append(ForestRuleKey(int(p), tuple(int(c) for c in cs.split(",")) if cs else (),
                                     tuple(int(s) for s in ss.split(",")) if ss else (), B[b]))
    return out


def replay(case):
    inp = case["input"]
    if "alpha" in inp:
        o = search_worker(inp)
        want = case.get("signature")
        for sig, d in o["problems"]:
            if want is None or sig == want:
                return {"signature": sig, "input": inp, "detail": d}
        return None
    r = common.Result("C11")
    run_cases(r, [(parse_keys(inp["keys"]), inp["root"])], "replay")
    return r.failures[0] if r.failures else None
