"""C13 — the parallel specification finder is total and its output is a matched pair."""
import random

import common
import speccheck
import specrun
import upword
from comb_spec_searcher import CombinatorialSpecificationSearcher
from comb_spec_searcher.bijection import EqPathParallelSpecFinder, ParallelSpecFinder
from comb_spec_searcher.isomorphism import Bijection, Isomorphism
from upword import PW, make_pack

LEVEL_NOTE = (
    "the two parallel searches are not modelled; their result is validated by proven checkers: each returned "
    "specification goes through checkSpec (closed, one rule per class, productive) and the Lean evaluator and is counted "
    "against brute force, the pair through Isomorphism.check (itself covered by C12) and the brute-force bijection test; "
    "totality is decided by enumerating pairs of searchers whose start classes sit in non-trivial equivalence classes"
)


def searcher(pats, alpha, inferral, symmetry, prefix="", rich=None):
    """rich: None | "rot" (relabelling strategies) | "two" (two competing decompositions per class) | "factory" (expansion through a factory)"""
    pack = make_pack("", inferral, symmetry, rot=({"rot": True, "two": "two", "mixed": "mixed", "ne": "ne"}.get(rich, False)), factory=("plain" if rich == "factory" else None))
    s = CombinatorialSpecificationSearcher(PW(prefix, pats, alpha, False, ()), pack)
    specrun.quiet()
    return s


# ------------------------------------------------------------------ the library's example universe with competing rules
def _example_pack():
    from comb_spec_searcher import AtomStrategy, StrategyPack
    from example import AvoidingWithPrefix, ExpansionStrategy, RemoveFrontOfPrefix

    class TwoLetterExpansion(ExpansionStrategy):
        """W(p) = {p} + sum_a {pa} + sum_{a,b} W(pab): a second decomposition of every class"""

        def decomposition_function(self, comb_class):
            if comb_class.just_prefix:
                return None
            pre, pats, al = comb_class.prefix, comb_class.patterns, comb_class.alphabet
            kids = [AvoidingWithPrefix(pre, pats, al, True)]
            for a in al:
                kids.append(AvoidingWithPrefix(pre + a, pats, al, True))
                for b in al:
                    kids.append(AvoidingWithPrefix(pre + a + b, pats, al))
            return tuple(kids)

        def formal_step(self):
            return "the prefix, the prefix and one letter, or two more letters"

        def forward_map(self, comb_class, word, children=None):
            if children is None:
                children = self.decomposition_function(comb_class)
            res = [None] * len(children)
            for i, ch in enumerate(children):
                if (word == ch.prefix) if ch.just_prefix else word.startswith(ch.prefix):
                    res[i] = word
                    break
            return tuple(res)

        def __repr__(self):
            return "TwoLetterExpansion()"

    return StrategyPack(initial_strats=[RemoveFrontOfPrefix(ignore_parent=False)], inferral_strats=[],
                        expansion_strats=[[ExpansionStrategy(), TwoLetterExpansion()]], ver_strats=[AtomStrategy()],
                        name="words, one or two letters at a time")


def example_pair(rnd, out, N):
    """a pair of searchers over the example's word classes with two competing decompositions per class (the second phase of
    the finders has to backtrack): a class and its complement image / itself / an unrelated class"""
    from example import AvoidingWithPrefix

    al = ["0", "1"]
    p1 = sorted({"".join(rnd.choice(al) for _ in range(rnd.choice([3, 4, 4, 4]))) for _ in range(rnd.choice([1, 2, 2, 2, 2]))})
    t = str.maketrans("01", "10")
    p2 = sorted(p.translate(t) for p in p1) if rnd.random() < 0.8 else sorted({"".join(rnd.choice(al) for _ in range(rnd.randint(2, 4)))})
    for F in (ParallelSpecFinder, EqPathParallelSpecFinder):
        inp = {"example_universe": True, "patterns1": p1, "patterns2": p2, "finder": F.__name__}
        s1 = CombinatorialSpecificationSearcher(AvoidingWithPrefix("", p1, al), _example_pack())
        s2 = CombinatorialSpecificationSearcher(AvoidingWithPrefix("", p2, al), _example_pack())
        specrun.quiet()
        out["pairs"] += 1
        try:
            r = F(s1, s2).find()
        except Exception as exc:  # noqa: BLE001
            specrun.quiet()
            out["problems"].append(("finder-raises", inp, specrun.exc_info(exc)))
            continue
        specrun.quiet()
        if r is None:
            continue
        out["found"] += 1
        a, b = r
        try:
            for which, sp, st in (("first", a, s1), ("second", b, s2)):
                if sp.root != st.start_class:
                    out["problems"].append(("returned-specification-has-another-root", inp, which))
                if [sp.count_objects_of_size(n) for n in range(N)] != [sum(1 for _ in st.start_class.objects_of_size(n)) for n in range(N)]:
                    out["problems"].append(("returned-specification-miscounts", inp, which))
            if not Isomorphism.check(a, b):
                from props import c12

                out["isolines"].append((f"{c12.skeleton(a)} {c12.skeleton(b)}", inp))
            else:
                bij = Bijection.construct(a, b)
                for n in range(N):
                    dom = sorted(a.root.objects_of_size(n))
                    img = [bij.map(w) for w in dom]
                    if sorted(img) != sorted(b.root.objects_of_size(n)) or [bij.inverse_map(v) for v in img] != dom:
                        out["problems"].append(("returned-pair's-bijection-is-not-one", inp, f"size {n}"))
                        break
        except Exception as exc:  # noqa: BLE001
            out["problems"].append(("returned-pair-unusable", inp, specrun.exc_info(exc)))


# ------------------------------------------------------------------ U-seq: classes with several rules of different constructors
def useq_pair(rnd, out, N, tag, sym=False):
    """two random one-letter grammar universes of the same shape (union and product descriptions of the same sequences,
    aliases that are not declared equivalences), both expanded completely, then both finders"""
    import useq
    from comb_spec_searcher.exception import NoMoreClassesToExpandError

    g1, g2 = f"{tag}a", f"{tag}b"
    if sym:
        useq.rand_sym_pair(rnd, g1, g2)
    else:
        plan = useq.rand_plan(rnd)
        useq.rand_grammar(rnd, g1, plan)
        r = rnd.random()
        useq.rand_grammar(rnd, g2, plan if r < 0.4 else (useq.vary(rnd, plan) if r < 0.85 else useq.rand_plan(rnd)))
    if not (useq.well_formed(g1) and useq.well_formed(g2)):
        raise RuntimeError("harness: ill-formed U-seq grammar")
    desc = {"useq": True, "grammar1": {k: v for k, v in useq.GRAMMARS[g1].items()}, "grammar2": {k: v for k, v in useq.GRAMMARS[g2].items()}}
    # the plain finder documents the assumption "classes that share equivalence labels are in fact equivalent": universes with
    # a two-way unary rule that is not an equivalence are for the equivalence-path variant only
    alias = any(isinstance(v, list) and any(op == "=" for op, _ in v) for g in (g1, g2) for v in useq.GRAMMARS[g].values())
    for F in ((EqPathParallelSpecFinder,) if alias else (ParallelSpecFinder, EqPathParallelSpecFinder)):
        inp = dict(desc, finder=F.__name__)
        ss = []
        # half of the pairs are handed to the finder unexpanded, with a pack whose unions are initial strategies: the finder
        # then expands them itself, and the level in which a specification appears may be the one in which the queue runs dry
        fresh = random.Random(f"{tag}|{F.__name__}|{sorted(useq.GRAMMARS[g1].items())!r}").random() < 0.5
        inp["fresh"] = fresh
        for g in (g1, g2):
            s = CombinatorialSpecificationSearcher(useq.T(g, "R"), useq.pack(split=fresh))
            specrun.quiet()
            try:
                for _ in range(0 if fresh else 50):
                    s.do_level()
            except NoMoreClassesToExpandError:
                pass
            ss.append(s)
        out["pairs"] += 1
        try:
            r = F(ss[0], ss[1]).find()
        except Exception as exc:  # noqa: BLE001
            specrun.quiet()
            out["problems"].append(("finder-raises", inp, specrun.exc_info(exc)))
            continue
        specrun.quiet()
        if r is None:
            continue
        out["found"] += 1
        a, b = r
        try:
            for which, sp, g in (("first", a, g1), ("second", b, g2)):
                if sp.root != useq.T(g, "R"):
                    out["problems"].append(("returned-specification-has-another-root", inp, which))
                if [sp.count_objects_of_size(n) for n in range(N)] != [useq.counts(g, "R", n) for n in range(N)]:
                    out["problems"].append(("returned-specification-miscounts", inp, which))
            if not Isomorphism.check(a, b):
                from props import c12

                out["isolines"].append((f"{c12.skeleton(a)} {c12.skeleton(b)}", inp))
        except Exception as exc:  # noqa: BLE001
            out["problems"].append(("returned-pair-unusable", inp, specrun.exc_info(exc)))


def worker(args):
    import signal

    seed, count, N = args
    signal.signal(signal.SIGALRM, speccheck._alarm)
    signal.alarm(150)
    rnd = random.Random(seed)
    out = {"seed": seed, "problems": [], "pairs": 0, "found": 0, "lines": [], "nontrivial_eq": 0, "isolines": []}
    try:
        specrun.quiet()
        for _ in range(count):
            if rnd.random() < 0.5:
                example_pair(rnd, out, N)
                continue
            if rnd.random() < 0.4:
                useq_pair(rnd, out, N, f"g{seed}_{out['pairs']}", sym=rnd.random() < 0.5)
                continue
            alpha = rnd.choice(["ab", "ab", "abc"])
            p1 = upword.rand_patterns(rnd, alpha, 3, 3)
            if rnd.random() < 0.2:  # every continuation of one letter forbidden: a rule with several children that sit in other equivalence classes
                x = rnd.choice(alpha)
                p1 = sorted(x + y for y in alpha)
            kind = rnd.random()
            if kind < 0.45:  # image under a relabelling, possibly with a redundant pattern added (inferral applies to the start class)
                perm = list(alpha)
                rnd.shuffle(perm)
                t = str.maketrans(alpha, "".join(perm))
                p2 = sorted(p.translate(t) for p in p1)
            elif kind < 0.7:
                p2 = list(p1)
            else:
                p2 = upword.rand_patterns(rnd, alpha, 3, 3)
            red1 = red2 = False
            if rnd.random() < 0.5:
                p1 = sorted(set(p1 + [p1[0] + rnd.choice(alpha)]))
                red1 = True
            if rnd.random() < 0.5:
                p2 = sorted(set(p2 + [rnd.choice(alpha) + p2[0]]))
                red2 = True
            inferral = rnd.random() < 0.7
            symmetry = rnd.random() < 0.4 and len(alpha) == 2
            # start classes with prefixes: the same shape with atoms of different sizes must not be matched
            pre1 = pre2 = ""
            if rnd.random() < 0.3:
                pre1 = "".join(rnd.choice(alpha) for _ in range(rnd.randint(0, 2)))
                pre2 = pre1 + rnd.choice(alpha) if rnd.random() < 0.7 else pre1
                if rnd.random() < 0.6:
                    p2 = list(p1)
            rich = rnd.choice([None, None, "two", "two", "rot", "factory", "mixed", "mixed", "ne", "ne"])
            for F in ((EqPathParallelSpecFinder,) if rich == "ne" else (ParallelSpecFinder, EqPathParallelSpecFinder)):
                inp = {"patterns1": p1, "patterns2": p2, "alphabet": alpha, "inferral": inferral, "symmetry": symmetry, "finder": F.__name__,
                       "prefix1": pre1, "prefix2": pre2, "rich": rich}
                s1 = searcher(p1, alpha, inferral, symmetry, pre1, rich)
                s2 = searcher(p2, alpha, inferral, symmetry, pre2, rich)
                out["pairs"] += 1
                try:
                    r = F(s1, s2).find()
                except speccheck.Timeout:
                    raise
                except Exception as exc:  # noqa: BLE001
                    specrun.quiet()
                    out["problems"].append(("finder-raises", inp, specrun.exc_info(exc)))
                    continue
                specrun.quiet()
                if any(s.ruledb.equivdb[s.start_label] != s.start_label or len(s.ruledb.equivdb.equivalent_set(s.start_label)) > 1 for s in (s1, s2)):
                    out["nontrivial_eq"] += 1
                if r is None:
                    continue
                out["found"] += 1
                a, b = r
                try:
                    if a.root != s1.start_class or b.root != s2.start_class:
                        out["problems"].append(("returned-specification-has-another-root", inp, f"{a.root!r}, {b.root!r}"))
                    for which, sp in (("first", a), ("second", b)):
                        idx, line = specrun.spec_line(sp, N, N + 4)
                        py = specrun.py_terms_line(sp, idx, N)
                        if py != specrun.truth_line(idx, N):
                            out["problems"].append(("returned-specification-miscounts", inp, which))
                        gen = [g for rr in sp for g in [specrun.genuine(rr)] if g]
                        if gen:
                            out["problems"].append(("returned-specification-not-genuine", inp, f"{which}: {gen[0]}"))
                        out["lines"].append((line, py, inp, which))
                    if not Isomorphism.check(a, b):
                        # the library's matcher is not complete (C12 claims soundness only): the verdict is left to the
                        # reference relation isoRef (Lean) on the two skeletons
                        from props import c12

                        out["isolines"].append((f"{c12.skeleton(a)} {c12.skeleton(b)}", inp))
                    else:
                        bij = Bijection.construct(a, b)
                        for n in range(N):
                            dom = sorted(a.root.objects_of_size(n))
                            img = [bij.map(w) for w in dom]
                            if sorted(img) != sorted(b.root.objects_of_size(n)) or [bij.inverse_map(v) for v in img] != dom:
                                out["problems"].append(("returned-pair's-bijection-is-not-one", inp, f"size {n}"))
                                break
                except speccheck.Timeout:
                    raise
                except Exception as exc:  # noqa: BLE001
                    out["problems"].append(("returned-pair-unusable", inp, specrun.exc_info(exc)))
    except speccheck.Timeout:
        out["timeout"] = True
    finally:
        signal.alarm(0)
    return out


def run(tier, seed, factor=1):
    res = common.Result("C13")
    res.rule = ("pairs of searchers on word classes (alphabets ab/abc; the second class an image of the first under a relabelling, the same "
                "class, or unrelated; redundant patterns added so that an inferral strategy applies to a start class; with/without inferral "
                "and symmetry strategies) x both finder variants; non-trivial = a pair; distinct by seed")
    N = common.scale(tier, 6, 8)
    jobs = [(seed * 7873 + i, common.scale(tier, 10, 16), N) for i in range(common.scale(tier, 160, 600) * factor)]
    outs = specrun.pool_map(worker, jobs)
    specrun.quiet()
    lines = [l for o in outs for l in o["lines"]]
    lean = common.run_driver("Spec", "\n".join(l[0] for l in lines) + "\n") if lines else []
    for (line, py, inp, which), l in zip(lines, lean):
        chk, _msh, status, model = speccheck.parse_lean(l)
        if not chk:
            res.fail("returned-specification-not-closed-or-not-productive", inp, which)
        if status != "ok" or model != py:
            res.diff("parallel finder's specification: get_terms vs Lean evalSpec", inp, model[:200], py[:200])
    isolines = [l for o in outs for l in o["isolines"]]
    if isolines:
        verdicts = common.run_driver("IsoRef", "\n".join(l[0] for l in isolines) + "\n")
        for (text, inp), v in zip(isolines, verdicts):
            if v == "True":
                res.dist["pair isomorphic by the reference relation, Isomorphism.check does not find it (matcher incompleteness, C12)"] += 1
            else:
                res.fail("returned-pair-not-isomorphic", inp, "Isomorphism.check and the reference relation isoRef both reject the pair")
    for o in outs:
        res.case(("seed", o["seed"], o["pairs"]), nontrivial=o["pairs"] >= 1)
        res.dist["pairs of searchers x finder"] += o["pairs"]
        res.dist["pairs of specifications returned"] += o["found"]
        res.dist["start class in a non-trivial equivalence class"] += o["nontrivial_eq"]
        if o.get("timeout"):
            res.dist["timeout"] += 1
        res.traces += o["pairs"]
        seen = set()
        for sig, inp, d in o["problems"]:
            if (sig, repr(inp)) not in seen:
                seen.add((sig, repr(inp)))
                res.fail(sig, inp, d)
    return res


def search(tier, seed):
    return run(tier, seed + 1000, factor=2)


def replay(case):
    inp = case["input"]
    if "patterns1" not in inp:
        return None
    specrun.quiet()
    if inp.get("useq"):
        return "re-run the check with the recorded seed (the grammars are printed in the input)"
    if inp.get("example_universe"):
        from example import AvoidingWithPrefix

        F = ParallelSpecFinder if inp["finder"] == "ParallelSpecFinder" else EqPathParallelSpecFinder
        try:
            r = F(CombinatorialSpecificationSearcher(AvoidingWithPrefix("", inp["patterns1"], ["0", "1"]), _example_pack()),
                  CombinatorialSpecificationSearcher(AvoidingWithPrefix("", inp["patterns2"], ["0", "1"]), _example_pack())).find()
        except Exception as exc:  # noqa: BLE001
            return {"signature": "finder-raises", "input": inp, "detail": specrun.exc_info(exc)}
        specrun.quiet()
        if r is not None and not Isomorphism.check(*r):
            from props import c12

            if common.run_driver("IsoRef", f"{c12.skeleton(r[0])} {c12.skeleton(r[1])}\n")[0] != "True":
                return {"signature": "returned-pair-not-isomorphic", "input": inp,
                        "detail": "Isomorphism.check and the reference relation isoRef both reject the pair"}
        return None
    F = ParallelSpecFinder if inp["finder"] == "ParallelSpecFinder" else EqPathParallelSpecFinder
    s1 = searcher(inp["patterns1"], inp["alphabet"], inp["inferral"], inp["symmetry"], inp.get("prefix1", ""), inp.get("rich"))
    s2 = searcher(inp["patterns2"], inp["alphabet"], inp["inferral"], inp["symmetry"], inp.get("prefix2", ""), inp.get("rich"))
    try:
        F(s1, s2).find()
    except Exception as exc:  # noqa: BLE001
        return {"signature": "finder-raises", "input": inp, "detail": specrun.exc_info(exc)}
    return None
