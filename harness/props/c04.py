"""C04 — the rule universe built by the searcher is faithful to the strategies."""
import random

import common
import speccheck
import specrun
import utable
from comb_spec_searcher import CombinatorialSpecificationSearcher
from comb_spec_searcher.exception import SpecificationNotFound, StrategyDoesNotApply
from comb_spec_searcher.rule_db import RuleDB, RuleDBForest, RuleDBForgetStrategy
from comb_spec_searcher.strategies.strategy import AbstractStrategy, EmptyStrategy, StrategyFactory, VerificationStrategy
from comb_spec_searcher.typing import RuleBucket
from utable import TC

LEVEL_NOTE = (
    "the searcher (class database, queue, add_rule / try_verify / symmetry / inferral expansion, RuleDBBase.add with its "
    "label cleaning, the forest flavour with reverse keys and lazily added empty rules, and has_specification with cycle "
    "detection and pruning) is modelled in Lean as a state machine over table-driven universes; label bijectivity/density "
    "(C15), exhaustion/no-duplicate scheduling (C16) and the fixed points (C03/C05) are proven for its components; the "
    "real searcher must emit the same sequence of ruledb.add events and reach the same state as the model, and every "
    "recorded rule is re-derived from the pack on word universes"
)

BK = {RuleBucket.VERIFICATION: 0, RuleBucket.EQUIV: 1, RuleBucket.NORMAL: 2, RuleBucket.REVERSE: 3}


# ------------------------------------------------------------------ the property oracle on any searcher
class Recorder:
    """wraps a rule database's add() from outside and judges every recorded rule against the property"""

    def __init__(self, pack):
        self.s, self.pack, self.problems, self.events = None, pack, [], 0

    def hook(self, db, start, ends, rule):
        self.s = db.searcher
        self.events += 1
        self.judge(start, tuple(ends), rule)

    def judge(self, start, ends, rule):
        cdb = self.s.classdb
        try:
            if cdb.get_class(start) != rule.comb_class:
                self.problems.append(("parent-label-is-not-the-rule's-class", f"label {start} is {cdb.get_class(start)!r}, rule is for {rule.comb_class!r}"))
            if tuple(cdb.get_label(c) for c in rule.children) != ends:
                self.problems.append(("child-labels-are-not-the-rule's-children", f"{ends} vs {tuple(cdb.get_label(c) for c in rule.children)}"))
            if isinstance(rule.strategy, EmptyStrategy):
                if not rule.comb_class.is_empty():
                    self.problems.append(("empty-rule-for-non-empty-class", repr(rule.comb_class)))
                return
            # genuine: the strategy applied to the class carrying the parent label yields exactly this rule
            try:
                again = rule.strategy(rule.comb_class)
            except StrategyDoesNotApply:
                self.problems.append(("rule-recorded-by-a-strategy-that-does-not-apply", f"{rule.strategy!r} on {rule.comb_class!r}"))
                return
            if tuple(again.children) != tuple(rule.children):
                self.problems.append(("recorded-children-differ-from-the-strategy's", f"{rule.children} vs {again.children}"))
            # ... and the strategy belongs to the pack (directly or through a factory)
            if not self.in_pack(rule.strategy, rule.comb_class):
                self.problems.append(("strategy-not-in-pack", repr(rule.strategy)))
        except Exception as exc:  # noqa: BLE001
            self.problems.append(("judging-raised", specrun.exc_info(exc)))

    def in_pack(self, strat, comb_class):
        for s in self.pack:
            if isinstance(s, StrategyFactory):
                # a factory may yield the strategy (or the ready rule) from any class: accept what it yields on the
                # rule's class or on any class already in the database
                cdb = self.s.classdb
                for lbl in range(len(cdb.label_to_info)):
                    for it in s(cdb.get_class(lbl)):
                        if (it if isinstance(it, AbstractStrategy) else it.strategy) == strat:
                            return True
            elif s == strat:
                return True
        return False

    def final(self, searcher):
        """labels are a bijection; stored keys are clean"""
        self.s = searcher
        cdb = self.s.classdb
        n = len(cdb.label_to_info)
        classes = [cdb.get_class(l) for l in range(n)]
        if len(set(classes)) != n:
            self.problems.append(("two-labels-for-equal-classes", ""))
        for l, c in enumerate(classes):
            if cdb.get_label(c) != l:
                self.problems.append(("label-not-stable", f"{c!r}: {cdb.get_label(c)} vs {l}"))


def stored_keys_clean(searcher, log, problems):
    """default/forget databases: the stored key of every recorded rule is (start, sorted ends minus the empty children of
    possibly-empty rules)"""
    db = searcher.ruledb
    if not hasattr(db, "rule_to_strategy"):
        return
    stored = set(db)
    for start, ends, rule in log:
        keep = []
        for c, l in zip(rule.children, ends):
            if rule.possibly_empty and c.is_empty():
                continue
            if (not rule.possibly_empty) and c.is_empty():
                pass  # a non-possibly-empty strategy never omits a child, even an empty one
            keep.append(l)
        key = (start, tuple(sorted(keep)))
        if key not in stored and key != (start, (start,)):
            # a two-way unary rule replaces the one-way key of the same pair; the pair must then be stored as an equivalence
            if not (len(keep) == 1 and ((keep[0], (start,)) in stored)):
                problems.append(("stored-key-wrong", f"expected {key} among the stored keys"))


def logging_db(base, hooks, **kw):
    """a rule database of class `base` whose add() first calls every hook (from the very first rule on, including the
    ones recorded while the searcher is being constructed)"""

    class Logged(base):
        def add(self, start, ends, rule):
            for h in hooks:
                h(self, start, ends, rule)
            return super().add(start, ends, rule)

    Logged.__name__ = base.__name__
    return Logged(**kw)


# ------------------------------------------------------------------ (A)/(B) engine correspondence on table universes
def table_worker(args):
    seed, count = args[:2]
    rich = len(args) > 2  # the richer universes (utable.enrich), classes stored as bytes
    rnd = random.Random(seed)
    specrun.quiet()
    res = []
    TC.COMPRESS = rich
    for _ in range(count):
        n = rnd.randint(2, 9)
        TC.U = utable.gen_universe(rnd, n)
        if rich:
            utable.enrich(TC.U, random.Random(seed * 31 + len(res)))
        iterative = rnd.random() < 0.4
        pack = utable.gen_pack(rnd, iterative=iterative)
        ev = rnd.random() < 0.3
        flavour = rnd.choice(["default", "default", "forget", "forest"])
        lines = utable.universe_lines(n, pack, ev)
        o = {"flavour": flavour, "n": n, "problems": [], "seed": seed, "iterative": iterative, "rich": rich}
        log, raw = [], []
        try:
            if flavour == "forest":
                rev = rnd.random() < 0.7
                lines.append("M " + ",".join(map(str, TC.U["minsize"])) + f" {int(rev)}")
                lines.append("R 0")
                pack = utable.gen_pack(random.Random(seed), iterative=False) if False else pack
                rec = Recorder(pack)
                rdb = logging_db(RuleDBForest, [rec.hook], reverse=rev)
                orig_add = rdb.table_method.add_rule_key

                def logged(k):
                    log.append(f"K{k.parent}>{list(k.children)}{list(k.shifts)}b{BK[k.bucket]}")
                    return orig_add(k)

                rdb.table_method.add_rule_key = logged
                s = CombinatorialSpecificationSearcher(TC(0), pack, ruledb=rdb, expand_verified=ev)
                specrun.quiet()
                npk = 0
                for wp in s.classqueue:
                    npk += 1
                    if s.expand_verified or not s.ruledb.is_verified(wp.label):
                        s._expand(s.classdb.get_class(wp.label), wp.label, wp.strategies, wp.inferral)
                db = s.classdb
                nl = len(db.label_to_info)
                f = s.ruledb.table_method.function
                val = ["inf" if (l in f and f[l] is None) else str(f.get(l, 0)) for l in range(nl)]
                o["expect"] = (f"packets={npk} classes={[db.get_class(l).i for l in range(nl)]} empt={[2 if e is None else int(e) for e in db.empty_list]} "
                               f"val=[{', '.join(val)}] tried={sorted(s.tried_to_verify)} sym={sorted(s.symmetry_expanded)} inf={sorted(s.inferral_expanded)} "
                               f"ign={sorted(s.classqueue.ignore)} | {' '.join(log)}")
                o["driver"] = "EngineForest"
            else:
                K = rnd.choice([1, 2, 3, 5, 1000])
                lines.append(f"R 0 {K} {int(iterative)}")
                DB = RuleDB if flavour == "default" else RuleDBForgetStrategy
                rec = Recorder(pack)

                def add2(_db, start, ends, rule):
                    log.append(f"E{start}>{list(ends)}{'v' if isinstance(rule.strategy, VerificationStrategy) else ''}{'t' if rule.is_two_way() else ''}")
                    raw.append((start, tuple(ends), rule))

                s = CombinatorialSpecificationSearcher(TC(0), pack, ruledb=logging_db(DB, [rec.hook, add2]), expand_verified=ev)
                specrun.quiet()
                npk, bs, more = 0, [], True
                while more:
                    for _ in range(K):
                        try:
                            wp = next(s.classqueue)
                        except StopIteration:
                            more = False
                            break
                        npk += 1
                        if s.expand_verified or not s.ruledb.is_verified(wp.label):
                            s._expand(s.classdb.get_class(wp.label), wp.label, wp.strategies, wp.inferral)
                    bs.append(int(s.ruledb.has_specification()))
                db = s.classdb
                nl = len(db.label_to_info)

                def keys(d):
                    return sorted([k[0]] + list(k[1]) for k in d)

                part = [next(b for b in range(nl) if s.ruledb.equivdb.equivalent(a, b)) for a in range(nl)]
                o["expect"] = (f"spec={bs} packets={npk} classes={[db.get_class(l).i for l in range(nl)]} empt={[2 if e is None else int(e) for e in db.empty_list]} "
                               f"rules={keys(s.ruledb.rule_to_strategy)} eqv={keys(s.ruledb.eqv_rule_to_strategy)} ver={[int(s.ruledb.is_verified(l)) for l in range(nl)]} "
                               f"part={part} tried={sorted(s.tried_to_verify)} sym={sorted(s.symmetry_expanded)} inf={sorted(s.inferral_expanded)} "
                               f"ign={sorted(s.classqueue.ignore)} | {' '.join(log)}")
                o["driver"] = "EngineDefault"
                stored_keys_clean(s, raw, o["problems"])
            rec.final(s)
            o["problems"] += rec.problems
            o["events"] = rec.events
            o["lines"] = lines
        except Exception as exc:  # noqa: BLE001
            o["problems"].append(("searcher-raises", specrun.exc_info(exc)))
            o["events"] = 0
        res.append(o)
    return res


# ------------------------------------------------------------------ (C) the oracle on word universes
def word_worker(args):
    import signal

    signal.signal(signal.SIGALRM, speccheck._alarm)
    signal.alarm(40)
    try:
        cfg = args
        out = {"cfg": cfg, "problems": [], "events": 0}
        specrun.quiet()
        import upword

        upword.COMPRESS = cfg["seed"] % 4 == 1 and not cfg.get("gram")  # classes stored compressed, with a colliding hash
        upword.LOOSE_EMPTY = cfg["seed"] % 2 == 0  # rules that do not declare possibly-empty children but have empty ones: children kept
        root, pack, db = specrun.build(cfg)
        if cfg["seed"] % 5 == 2 and not cfg.get("gram"):
            # a verification strategy whose rules have a child (the class it depends on)
            from comb_spec_searcher import StrategyPack

            pack = StrategyPack(initial_strats=list(pack.initial_strats), inferral_strats=list(pack.inferral_strats),
                                expansion_strats=[list(ss) for ss in pack.expansion_strats],
                                ver_strats=list(pack.ver_strats) + [upword.DepVer([random.Random(cfg["seed"]).choice(["a", "b", "ab", "ba", "aa"])])],
                                name=pack.name, symmetries=list(pack.symmetries), iterative=pack.iterative)
        rec = Recorder(pack)
        raw = []
        kw = {"reverse": cfg["reverse"]} if cfg["db"] == "RuleDBForest" else {}
        db = logging_db(type(db), [rec.hook, lambda _db, st, en, ru: raw.append((st, tuple(en), ru))], **kw)
        s = CombinatorialSpecificationSearcher(root, pack, ruledb=db, expand_verified=cfg["expand_verified"])
        specrun.quiet()
        # the universe is built through each of the library's own driving loops: packet by packet, auto_search's timed
        # expansion loop (under the tick clock, with a limit) and do_level
        how = cfg["seed"] % 3
        out["driver"] = ["packets", "auto_search", "do_level"][how]
        if how == 0:
            try:
                for _ in range(400):
                    wp = next(s.classqueue)
                    if s.expand_verified or not s.ruledb.is_verified(wp.label):
                        s._expand(s.classdb.get_class(wp.label), wp.label, wp.strategies, wp.inferral)
            except StopIteration:
                pass
        elif how == 1:
            import comb_spec_searcher.comb_spec_searcher as css_mod
            from comb_spec_searcher.exception import ExceededMaxtimeError, SpecificationNotFound

            real, st = css_mod.time, random.getstate()
            css_mod.time = specrun.TickClock()
            random.seed(cfg["seed"])
            try:
                s.auto_search(perc=cfg["perc"], max_expansion_time=1500)
            except (ExceededMaxtimeError, SpecificationNotFound):
                pass
            except RuntimeError as exc:
                if "Can't find a rule for ForestRuleKey" not in str(exc):  # the C11 key->rule finding
                    raise
            finally:
                css_mod.time = real
                random.setstate(st)
                specrun.quiet()
        else:
            from comb_spec_searcher.exception import NoMoreClassesToExpandError

            try:
                for _ in range(4):
                    if s.do_level():
                        break
            except NoMoreClassesToExpandError:
                pass
        rec.final(s)
        stored_keys_clean(s, raw, rec.problems)
        out["problems"] = rec.problems
        out["events"] = rec.events
        return out
    except speccheck.Timeout:
        return {"cfg": args, "problems": [], "events": 0, "timeout": True}
    except Exception as exc:  # noqa: BLE001
        return {"cfg": args, "problems": [("searcher-raises", specrun.exc_info(exc))], "events": 0}
    finally:
        signal.alarm(0)
        import upword

        upword.COMPRESS = False
        upword.LOOSE_EMPTY = False


def labels_at_scale():
    """equal classes get the same label also in a database that already holds thousands of classes stored compressed"""
    import itertools

    import upword
    from comb_spec_searcher.class_db import ClassDB

    problems = []
    upword.COMPRESS = True
    try:
        db = ClassDB(upword.PW)
        words = [""] + ["".join(t) for k in range(1, 12) for t in itertools.product("ab", repeat=k)][:2300]
        classes = [upword.PW(w, ["bbbbbbbbbbbbb"], "ab") for w in words]
        first = [db.get_label(c) for c in classes]
        if first != list(range(len(classes))):
            problems.append(("labels-not-dense-in-order-of-first-appearance", f"{first[:5]}..."))
        for i in (0, 1, 7, 341, 2047, 2048, len(classes) - 1):
            again = db.get_label(upword.PW(words[i], ["bbbbbbbbbbbbb"], "ab"))
            if again != i:
                problems.append(("equal-classes-get-different-labels", f"class {i} of {len(classes)} is labelled {again} when asked again"))
                break
    finally:
        upword.COMPRESS = False
    return problems


def run(tier, seed, factor=1):
    res = common.Result("C04")
    for sig, d in labels_at_scale():
        res.fail(sig, {"labels_at_scale": True}, d)
    res.dist["label bijection on a database of 2300 compressed classes"] += 1
    res.rule = ("(A/B) random table universes (2-9 classes; union/product tables, two inferral strategies, a symmetry, a verification table, "
                "a factory yielding strategies and foreign-parent rules) x random packs (0-2 initial, 0-2 inferral, 1-3 expansion sets, "
                "symmetry or not, iterative or not, expand_verified) x {RuleDB, RuleDBForgetStrategy with random time-slicing, RuleDBForest "
                "with/without reverse}: event sequence and final state vs the Lean engine; (C) word universes: every recorded rule re-derived "
                "from the pack; non-trivial = a run with >=3 recorded rules; distinct by seed / config")
    nt = common.scale(tier, 96, 800) * factor
    per = common.scale(tier, 20, 40)
    touts = [o for part in specrun.pool_map(table_worker, [(seed * 7907 + i, per) for i in range(nt)] +
                                            [(seed * 7907 + 500000 + i, per, "rich") for i in range(max(4, nt // 3))]) for o in part]
    specrun.quiet()
    for drv in ("EngineDefault", "EngineForest"):
        batch = [o for o in touts if o.get("driver") == drv and "lines" in o and "expect" in o]
        if not batch:
            continue
        lean = common.run_driver(drv, "\n".join("\n".join(o["lines"]) for o in batch) + "\n")
        lean = [l for l in lean if l != ""]
        assert len(lean) == len(batch), (drv, len(lean), len(batch))
        for o, l in zip(batch, lean):
            if " wfu=" in l:
                # the strategy contract the engine theorems assume (WFU), evaluated by the proven checker wfuB for this universe
                res.dist["engine theorems' hypothesis WFU holds for the universe" if " wfu=1 " in l else
                         "universe outside WFU (engine theorems do not apply; correspondence only)"] += 1
                l = l.replace(" wfu=1 ", " ").replace(" wfu=0 ", " ")
            elif l.startswith("wfu="):
                res.dist["engine theorems' hypothesis WFU holds for the universe" if l.startswith("wfu=1 ") else
                         "universe outside WFU (engine theorems do not apply; correspondence only)"] += 1
                l = l[6:]
            if l != o["expect"]:
                mo, _, me = l.partition(" | ")
                po, _, pe = o["expect"].partition(" | ")
                what = "recorded events" if me != pe else "final state"
                res.diff(f"searcher vs Lean engine ({o['flavour']}): {what}", {"seed": o["seed"], "flavour": o["flavour"]},
                         l[:600], o["expect"][:600])
    for o in touts:
        res.case(("table", o["seed"], o["n"], o["flavour"], o.get("expect", "")[:80]), nontrivial=o["events"] >= 3)
        res.dist["table:" + o["flavour"] + (" iterative" if o["iterative"] else "")] += 1
        res.dist["events recorded (table)"] += o["events"]
        res.traces += 1
        for sig, detail in o["problems"][:1]:
            res.fail(sig, {"table_seed": o["seed"], "flavour": o["flavour"]}, detail)
    rnd = random.Random(seed * 1000003 + 4)
    wouts = specrun.pool_map(word_worker, speccheck.make_configs(rnd, common.scale(tier, 160, 2000) * factor))
    specrun.quiet()
    for o in wouts:
        res.case(("cfg", repr(sorted(o["cfg"].items()))), nontrivial=o["events"] >= 3)
        res.dist["word:" + o["cfg"]["db"]] += 1
        res.dist["events recorded (word)"] += o["events"]
        res.traces += 1
        for sig, detail in o["problems"][:1]:
            res.fail(sig, o["cfg"], detail)
    return res


def search(tier, seed):
    return run(tier, seed + 1000, factor=2)


def replay(case):
    inp = case["input"]
    if inp.get("labels_at_scale"):
        pr = labels_at_scale()
        return {"signature": pr[0][0], "input": inp, "detail": pr[0][1]} if pr else None
    if "alpha" in inp:
        o = word_worker(inp)
        return {"signature": o["problems"][0][0], "input": inp, "detail": o["problems"][0][1]} if o["problems"] else None
    return "re-run the check with the recorded seed (table universes are regenerated from it)"
