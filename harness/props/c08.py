"""C08 — random sampling from a specification is exactly uniform."""
import random
from collections import Counter
from fractions import Fraction

import common
import rngenum
import rulecheck
import speccheck
import specrun
from comb_spec_searcher.exception import InvalidOperationError, SpecificationNotFound, StrategyDoesNotApply
from comb_spec_searcher.strategies.constructor import CartesianProduct, DisjointUnion
from upword import W, stat

LEVEL_NOTE = (
    "walk_some / walk_unwalk proven: the cumulative-threshold loop is a bijection between [1, sum w] and the pairs "
    "(block i, offset 1..w_i), so a uniform r selects block i with probability w_i / sum w; the random source is "
    "replaced by an enumerating one: exact output distributions of random_sample_object_of_size vs 1/count, and for "
    "every rule instance and every r the child / composition Python descends into vs the number of parent objects it "
    "accounts for (brute force) and vs the Lean walk over the model's compositions"
)


# ------------------------------------------------------------------ (a) exact distributions per specification
def spec_worker(args):
    import signal

    signal.signal(signal.SIGALRM, speccheck._alarm)
    signal.alarm(30)
    try:
        return _spec_worker(args)
    except speccheck.Timeout:
        return {"cfg": args[0], "problems": [], "cases": 0, "samples": [], "status": "timeout"}
    finally:
        signal.alarm(0)


def _spec_worker(args):
    cfg, N = args
    out = {"cfg": cfg, "problems": [], "cases": 0, "samples": []}
    specrun.quiet()
    if len(cfg["alpha"]) == 3:
        N = min(N, 3)
    if "track" in (cfg.get("mode") or ""):
        # a child that tracks a statistic its parent lacks: the library's samplers pass the child only the parent's
        # parameters (KeyError in count_objects_of_size) - such specifications do not support sampling
        out["status"] = "sampling-not-supported (child with an unmapped statistic)"
        return out
    try:
        root, spec, _ = specrun.search(cfg)
    except speccheck.Timeout:
        raise
    except SpecificationNotFound:
        out["status"] = "nospec"
        return out
    except Exception as exc:  # noqa: BLE001
        out["status"] = "exc"
        return out
    out["status"] = "spec"
    # the start class through the specification, then (keyword arguments in the opposite order, which must not matter) the start
    # class again and some other classes of the specification through their own rules
    others = [c for c in spec.rules_dict if c != root and not c.is_atom() and not c.is_empty()]
    others.sort(key=lambda c: -len(c.extra_parameters))
    targets = [(root, lambda n, kw: spec.random_sample_object_of_size(n, **kw), False),
               (root, lambda n, kw: spec.random_sample_object_of_size(n, **kw), True)]
    for c in others[:4]:
        targets.append((c, (lambda rule: lambda n, kw: rule.random_sample_object_of_size(n, **kw))(spec.get_rule(c)), len(targets) % 2 == 1))
    try:
        with rngenum.Patched():
            for cls_, sampler, flip in targets:
              if flip and len(cls_.extra_parameters) < 2 and cls_ == root:
                continue
              for n in range(N + 1):
                for params in cls_.possible_parameters(n):
                    objs = sorted(cls_.objects_of_size(n, **params))
                    kw = dict(reversed(list(params.items()))) if flip else dict(params)
                    if not objs and cls_ != root:
                        continue  # the refusal for sizes without objects is documented for the specification's own method
                    dist = rngenum.distribution(lambda: sampler(n, kw), limit=3000)
                    out["cases"] += 1
                    if not objs:
                        if set(dist) != {"EXC:InvalidOperationError"}:
                            out["problems"].append(("empty-size-not-refused", f"{cls_!r} n={n} {kw}: {dict(dist)}"))
                        continue
                    if any(isinstance(k, str) and k.startswith("EXC:NotImplementedError") for k in dist):
                        out["status"] = "sampling-not-implemented"
                        return out
                    want = {o: Fraction(1, len(objs)) for o in objs}
                    got = {str(k): v for k, v in dist.items()}
                    if got != {str(k): v for k, v in want.items()}:
                        out["problems"].append(("not-uniform", f"{cls_!r} n={n} {kw}: {({k: str(v) for k, v in got.items()})} expected 1/{len(objs)} each of {objs}"))
                        return out
                    if len(out["samples"]) < 1 and len(objs) > 2:
                        out["samples"].append(f"n={n} {params}: {len(objs)} objects each with probability 1/{len(objs)}")
    except RuntimeError as exc:
        out["status"] = "too-many-outcomes"
    return out


# ------------------------------------------------------------------ (b) per rule: which branch for which r
def key_of_parts(rule, parts):
    """the composition a tuple of parts belongs to: per child (size, parameter values) or None"""
    return tuple(None if p is None else (len(p),) + tuple(stat(p, l, f) for _, l, f in ch.params) for p, ch in zip(parts, rule.children))


def rule_worker(args):
    seed, count, N = args
    rnd = random.Random(seed)
    specrun.quiet()
    res = []
    for c, mode in rulecheck.classes(rnd, count, products=True):
        for s in rulecheck.strategies(mode):
            try:
                rule = s(c)
            except StrategyDoesNotApply:
                continue
            con = rule.constructor
            if not isinstance(con, (DisjointUnion, CartesianProduct)) or c.is_empty():
                continue
            if any(set(ch.extra_parameters) - set(m.values()) for ch, m in zip(rule.children, rule.strategy.extra_parameters(c, rule.children))):
                continue  # a child with an unmapped statistic: sampling not supported by the library
            o = {"rule": f"{c!r} via {s!r}", "problems": [], "instances": 0, "lines": [], "expect": [], "kind": type(con).__name__}
            from upword import true_terms

            subrecs = tuple((lambda ch: (lambda n, **kw: true_terms(ch, n)[tuple(kw[k] for k in ch.extra_parameters)]))(ch) for ch in rule.children)
            for n in range(N + 1):
                for params in c.possible_parameters(n):
                    objs = list(c.objects_of_size(n, **params))
                    if not objs or len(objs) > 60:
                        continue
                    truth = Counter(key_of_parts(rule, rule.forward_map(W(w))) for w in objs)
                    chosen = []
                    try:
                        for r in range(1, len(objs) + 1):
                            calls = []
                            subsamplers = tuple((lambda i: (lambda n, **kw: calls.append((i, n, kw)) or "X"))(i) for i in range(len(rule.children)))
                            rngenum.E.script, rngenum.E.pos, rngenum.E.trace = [r - 1], 0, []
                            with rngenum.Patched():
                                got = con.random_sample_sub_objects(len(objs), subsamplers, subrecs, n, **params)
                            key = [None] * len(rule.children)
                            for i, nn, kw in calls:
                                key[i] = (nn,) + tuple(kw[k] for k in rule.children[i].extra_parameters)
                            chosen.append(tuple(key))
                    except Exception as exc:  # noqa: BLE001
                        o["problems"].append(("sampler-raises", f"n={n} {params} r={len(chosen) + 1}: {specrun.exc_info(exc)}"))
                        break
                    o["instances"] += 1
                    if Counter(chosen) != truth:
                        o["problems"].append(("branch-probability-wrong", f"n={n} {params}: r -> branch counts {dict(Counter(chosen))} but the branches account for {dict(truth)} objects"))
                        break
                    # correspondence with the walk: the order of first appearance of the branches as r grows and
                    # the true weights predict, through `walk`, the branch of every r
                    order = list(dict.fromkeys(chosen))
                    o["lines"].append("W " + ",".join(str(truth[k]) for k in order))
                    o["expect"].append(",".join(str(order.index(k)) for k in chosen))
                if o["problems"]:
                    break
            res.append(o)
    return res


def run(tier, seed, factor=1):
    res = common.Result("C08")
    res.rule = ("(a) real searches as in C01; for every n <= N and every parameter value the exact distribution of "
                "random_sample_object_of_size under an enumerating random source vs 1/count on the brute-force objects, and the documented "
                "refusal where there is no object; (b) union and product rules of C09's universe: for every (n, parameters) with objects and "
                "every r in 1..count the branch (child / composition) taken, its multiplicity vs the number of parent objects the branch "
                "accounts for, and vs the Lean threshold walk; non-trivial = a case with >=2 objects; distinct by config / rule")
    rnd = random.Random(seed * 1000003 + 8)
    N = common.scale(tier, 4, 5)
    cfgs = speccheck.make_configs(rnd, common.scale(tier, 120, 1500) * factor)
    for _ in range(max(6, len(cfgs) // 10)):  # U-gram: unions with a repeated child, products, reverse rules
        cfgs.append(dict(gram=[rnd.choice(["S", "S", "M", "M", "F", "Y", "E"]) for _ in range(rnd.choice([1, 2, 2]))], gram_flat=True, alpha="ab",
                         db=rnd.choice(["RuleDB", "RuleDBForgetStrategy", "RuleDBForest"]), seed=rnd.randrange(10**6), perc=rnd.choice([100, 20, 1]),
                         smallest=False, expand_verified=False))
    cfgs += [specrun.perm_config(rnd) for _ in range(max(16, len(cfgs) // 10))]  # paths whose backward maps do not commute
    prnd = random.Random(seed * 6700417 + 8)
    cfgs += [specrun.pad_config(prnd) for _ in range(max(16, len(cfgs) // 10))]  # equivalences whose non-empty child is not child 0
    # weighted statistics (an occurrence counts twice): parameter values larger than the size of the object
    wrnd = random.Random(seed * 7919 + 88)
    for _ in range(max(16, len(cfgs) // 10)):
        c = specrun.rand_config(wrnd, None)
        c.update(params=wrnd.choice([[("k_0", "A", 0)], [("k_0", "A", 0), ("k_1", "b", 0)], [("k_0", "A", 0), ("k_1", "a", 1)], [("k_0", "B", 1)]]),
                 mode=wrnd.choice(["", "rename", "merge rename", "drop"]), prefver=None, packver=None, factory=None, rot=False, sep=None,
                 reverse_needed=False, symmetry=False, iterative=False, prefix="")
        c["params"] = [p for p in c["params"] if p[1].lower() in c["alpha"]]
        cfgs.append(c)
    outs = specrun.pool_map(spec_worker, [(c, N) for c in cfgs])
    specrun.quiet()
    for o in outs:
        res.case(("cfg", repr(sorted(o["cfg"].items()))), nontrivial=o["cases"] >= 2)
        res.dist["spec:" + o["status"]] += 1
        res.dist["distributions computed"] += o["cases"]
        if o["status"] == "spec":
            res.traces += 1
            for s in o["samples"]:
                if len(res.samples) < 6:
                    res.samples.append(s)
        for sig, detail in o["problems"]:
            res.fail(sig, o["cfg"], detail)
    jobs = [(seed * 991 + i, common.scale(tier, 4, 12), N + 1) for i in range(common.scale(tier, 48, 300) * factor)]
    routs = [o for part in specrun.pool_map(rule_worker, jobs) for o in part]
    specrun.quiet()
    lines = [l for o in routs for l in o["lines"]]
    lean = common.run_driver("C08", "\n".join(lines) + "\n") if lines else []
    k = 0
    for o in routs:
        res.case(("rule", o["rule"]), nontrivial=o["instances"] >= 1)
        res.dist["rule " + o["kind"]] += 1
        res.dist["rule instances (n, parameters)"] += o["instances"]
        res.traces += 1
        for sig, detail in o["problems"]:
            res.fail(sig, {"rule": o["rule"]}, detail)
        for e in o["expect"]:
            if lean[k] != e:
                res.diff("branch taken for r=1..W vs Lean walk", {"rule": o["rule"], "weights": lines[k]}, lean[k][:200], e[:200])
            k += 1
    return res


def search(tier, seed):
    return run(tier, seed + 1000, factor=2)


def replay(case):
    inp = case["input"]
    if "alpha" not in inp:
        return "re-run the check with the recorded seed"
    o = spec_worker((inp, 4))
    return {"signature": o["problems"][0][0], "input": inp, "detail": o["problems"][0][1]} if o["problems"] else None
