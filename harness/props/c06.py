"""C06 — equivalence classes are exactly the strongly connected components."""
import itertools
import random

import common
from comb_spec_searcher.equiv_db import EquivalenceDB

LEVEL_NOTE = (
    "sccB (mutual reachability) and checkPath are proven correct for all edge lists (sccB_correct, reachB_correct, "
    "checkPath_sound); merge step of the union-find proven to generate the equivalence (retarget_rel); the Python "
    "EquivalenceDB is compared after every operation with the Lean model (partition, verified flags) and at every "
    "admissible point with sccB; every explanation path goes through checkPath"
)


def canon(db, n):
    part = [next(b for b in range(n) if db.equivalent(a, b)) for a in range(n)]
    return part, [int(db.is_verified(a)) for a in range(n)]


def fresh_path(ops, a, b):
    """find_path(a, b) asked of a database that has only seen `ops` - no other query in between (queries compress the
    union-find pointers and could hide stale ones)"""
    db = EquivalenceDB()
    for op in ops:
        if op[0] == "two":
            db.add_two_way_edge(op[1], op[2])
        elif op[0] == "one":
            db.add_one_way_edge(op[1], op[2])
        elif op[0] == "ver":
            db.set_verified(op[1])
        else:
            db.connect_cycles()
    return db.find_path(a, b)


def run_history(res, n, ops):
    db = EquivalenceDB()
    lines = [f"new {n}"]
    exp = [("ok", None, None)]
    hist = {"n": n, "ops": ops}
    marked = set()
    dirty = False  # an edge (of either kind) was added since the last connect_cycles
    for idx, op in enumerate(ops):
        try:
            if op[0] == "two":
                db.add_two_way_edge(op[1], op[2]); lines.append(f"two {op[1]} {op[2]}"); dirty = True  # a two-way edge can close a cycle through older one-way edges
            elif op[0] == "one":
                db.add_one_way_edge(op[1], op[2]); lines.append(f"one {op[1]} {op[2]}"); dirty = True
            elif op[0] == "ver":
                db.set_verified(op[1]); marked.add(op[1]); lines.append(f"ver {op[1]}")
            else:
                db.connect_cycles(); lines.append("cyc"); dirty = False
            part, ver = canon(db, n)
        except Exception as exc:
            res.fail("equivdb-raises", hist, repr(exc))
            return None
        exp.append((f"{part} {ver}", None if dirty else str(part), None))
        # verified <=> some label of the (reported) class was marked — at every point
        for a in range(n):
            want = any(part[b] == part[a] and b in marked for b in range(n))
            if bool(ver[a]) != want:
                res.fail("verified-flag-wrong", hist, {"label": a, "reported": ver[a], "marked": sorted(marked), "partition": part})
                break
        # explanation paths at admissible points
        if not dirty:
            pairs = [(a, b) for a in range(n) for b in range(n) if a != b and part[a] == part[b]]
            k = len(lines)  # (position irrelevant for the model: paths do not change its state)
            for a, b in (pairs[:: max(1, len(pairs) // 3)][:3] if idx % 3 == 0 or idx == len(ops) - 1 else []):
                try:
                    p = fresh_path(ops[: idx + 1], a, b)
                except Exception as exc:
                    res.fail("find_path-raises", hist, {"a": a, "b": b, "exc": repr(exc), "asked": "without any other query"})
                    continue
                lines.append(f"path {a} {b} {','.join(map(str, p))}")
                exp.append(("path-ok", None, (a, b, list(p))))
            for a in range(n):
                for b in range(n):
                    if a != b and part[a] == part[b]:
                        try:
                            p = db.find_path(a, b)
                        except Exception as exc:
                            res.fail("find_path-raises", hist, {"a": a, "b": b, "exc": repr(exc)})
                            continue
                        lines.append(f"path {a} {b} {','.join(map(str, p))}")
                        exp.append(("path-ok", None, (a, b, list(p))))
    return lines, exp


def rand_case(rnd):
    n = rnd.randint(2, 8)
    ops = []
    w = rnd.choice([["two", "one", "one", "one", "ver", "cyc"], ["one", "one", "one", "one", "cyc", "ver"], ["two", "two", "one", "ver", "cyc"]])
    for _ in range(rnd.randint(1, 25)):
        o = rnd.choice(w)
        a, b = rnd.randrange(n), rnd.randrange(n)
        ops.append((o, a, b) if o in ("two", "one") else ((o, a) if o == "ver" else (o,)))
    if rnd.random() < 0.7:
        ops.append(("cyc",))
    return n, ops


def check_cases(res, cases, tag):
    text, metas = [], []
    for n, ops in cases:
        r = run_history(res, n, ops)
        res.case((n, tuple(ops)), nontrivial=sum(1 for o in ops if o[0] in ("one", "two")) >= 2 and any(o[0] == "cyc" for o in ops))
        for o in ops:
            res.dist[f"{tag}:op={o[0]}"] += 1
        if r is None:
            continue
        text += r[0]
        metas.append((n, ops, r[1]))
    out = common.run_driver("C06", "\n".join(text) + "\n")
    assert len(out) == len(text), (len(out), len(text))
    pos = 0
    for n, ops, exp in metas:
        res.traces += 1
        hist = {"n": n, "ops": ops}
        done_d = done_f = False
        for j, (e_model, e_scc, pth) in enumerate(exp):
            line = out[pos + j]
            if pth is not None:
                if line != "path-ok" and not done_f:
                    res.fail("explanation-path-invalid", hist, {"a": pth[0], "b": pth[1], "path": pth[2]}); done_f = True
                continue
            if j == 0:
                continue
            if " | rest=" in line:
                line, _, rest = line.rpartition(" | rest=")
                # the hypothesis of the proven cc_complete / cc_exact (the model's search came to rest), evaluated for this history
                res.dist[f"{tag}:hypothesis of cc_complete holds (the cycle search came to rest)" if rest == "1" else
                         f"{tag}:the model's cycle search did not come to rest within the fuel (cc_complete does not apply)"] += 1
            m, _, s = line.partition(" | ")
            if m != e_model and not done_d:
                res.diff("EquivalenceDB partition/verified vs Lean model", hist, m, e_model); done_d = True
            if e_scc is not None:
                res.dist[f"{tag}:admissible points"] += 1
                if s == "FUEL":
                    raise RuntimeError("sccB ran out of fuel")
                if s != e_scc and not done_f:
                    res.fail("partition-not-scc", hist, {"python": e_scc, "sccRef": s, "after_ops": j}); done_f = True
                if len(set(eval(s))) < n:
                    res.dist[f"{tag}:admissible with a nontrivial component"] += 1
        pos += len(exp)


def all_small(n, nedges):
    """every sequence of nedges distinct one-way edges on n vertices (ordered), with cyc at the end and
    optionally one two-way edge first and a verified mark"""
    pairs = [(a, b) for a in range(n) for b in range(n) if a != b]
    for es in itertools.permutations(pairs, nedges):
        yield n, [("one", a, b) for a, b in es] + [("cyc",)]
        yield n, [("ver", 0)] + [("one", a, b) for a, b in es[:-1]] + [("cyc",), ("one",) + es[-1], ("cyc",)]


def run(tier, seed, factor=1):
    res = common.Result("C06")
    res.rule = ("random histories (1-25 ops over 2-8 labels) of two-way edge / one-way edge / mark verified / connect_cycles; "
                "thorough adds every ordered sequence of 4 distinct one-way edges on 3 vertices and 3 on 4 vertices (with staged cycle detection); "
                "non-trivial = >=2 edges and a cycle detection; distinct by (n, op list)")
    rnd = random.Random(seed * 65537 + 6)
    n = common.scale(tier, 4000, 60000) * factor
    check_cases(res, [rand_case(rnd) for _ in range(n)], "rand")
    if tier == "thorough":
        ex = list(all_small(3, 4)) + list(all_small(4, 3))
        check_cases(res, ex, "small")
        res.notes.append(f"small scope: {len(ex)} histories (all ordered 4-edge sequences on 3 vertices, 3-edge on 4)")
    return res


def search(tier, seed):
    return run(tier, seed + 1000, factor=3)


def replay(case):
    inp = case["input"]
    r = common.Result("C06")
    check_cases(r, [(inp["n"], [tuple(o) for o in inp["ops"]])], "replay")
    return r.failures[0] if r.failures else None
