"""C01 — a specification returned by the searcher enumerates the root class correctly."""
import common
import speccheck

LEVEL_NOTE = (
    "sol_unique proven: a productive system with local recurrences has exactly one solution; the terms Python computes "
    "from every returned specification are compared with brute-force enumeration (the property) and with the Lean "
    "evaluator of the specification's skeleton over the constructor models (correspondence); productivity of the same "
    "skeleton is decided by the proven checkSpec"
)


def judge(res, o, lean):
    cfg = o["cfg"]
    if o["status"] in ("evalexc", "evaltimeout"):
        res.fail("counting-raises", cfg, o["exc"])
        return
    if o["status"] == "timeout":
        res.notes.append(f"search timed out: {cfg}")
        return
    if o["status"] != "spec":
        return  # a search that hands back nothing is outside this property (see C14 for the forget database)
    if o["py"] != o["truth"]:
        res.fail("count-ne-truth", cfg, {"python": o["py"][:400], "truth": o["truth"][:400]})
    if o["root_counts"] != o["root_truth"]:
        res.fail("root-count-ne-truth", cfg, {"python": o["root_counts"], "truth": o["root_truth"]})
    if not o["root_is_0"]:
        res.fail("specification-root-is-not-the-start-class", cfg, "")
    ll = speccheck.parse_lean(lean)
    _chk, _msh, status, model = ll
    if not ll.wf:
        res.diff("skeleton of a real specification does not meet SkelWF (hypothesis of spec_counts_correct / evalSpec_correct)", cfg, "wf=0", "")
    if status != "ok" or model != o["py"]:
        res.diff("get_terms vs Lean evalSpec of the skeleton", cfg, (status + " " + model)[:400], o["py"][:400])


def run(tier, seed, factor=1):
    return speccheck.run_specs("C01", tier, seed, factor, judge)


def search(tier, seed):
    return run(tier, seed + 1000, factor=2)


def replay(case):
    r = common.Result("C01")
    o = speccheck.worker((case["input"], 6))
    lean = common.run_driver("Spec", o["line"] + "\n")[0] if o["status"] == "spec" else None
    judge(r, o, lean)
    return r.failures[0] if r.failures else None
