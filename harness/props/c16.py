"""C16 — the work queue schedules every class completely, once, in order, and terminates."""
import itertools
import random

import common
from comb_spec_searcher.class_queue import DefaultQueue
from comb_spec_searcher.exception import NoMoreClassesToExpandError

LEVEL_NOTE = (
    "clauses 1, 2, 4 proven for the Lean model over all op histories (handed_nodup, stop_respected, "
    "next_terminates, next_exhausted_stable, next_not_ignored); clauses 3 and 5 decided per history by "
    "the oracle; DefaultQueue tied to the model by comparing every hand-out, exhaustion signal, error, level "
    "counter (verdict) and the entire internal state (diagnostic)"
)


class P:
    pass


def mkpack(ni, nn, sizes):
    p = P()
    p.inferral_strats = [f"inf{i}" for i in range(ni)]
    p.initial_strats = [f"init:{i}" for i in range(nn)]
    p.expansion_strats = [[f"exp:{j}:{i}" for i in range(sizes[j])] for j in range(len(sizes))]
    return p


def showq(q):
    def wp(w):
        return f"{w.label}:inf" if w.inferral else f"{w.label}:{w.strategies[0]}"
    return (f"W{list(q.working)} N{[(a, b) for a, b in q.next_level.items()]} C{[list(d) for d in q.curr_level]} "
            f"I{sorted(q.ignore)} S{list(q.queue_sizes)} X{sorted(q._inferral_expanded)} Y{sorted(q._initial_expanded)} "
            f"G[{', '.join(wp(w) for w in q.staging)}]")


def showwp(wp):
    if wp.inferral:
        return f"{wp.label}:inf"
    return f"{wp.label}:{wp.strategies[0]}"


def expected_seq(pack, l, inf):
    out = []
    if inf:
        out.append(f"{l}:inf")
    out += [f"{l}:init:{i}" for i in range(len(pack.initial_strats))]
    for j, es in enumerate(pack.expansion_strats):
        out += [f"{l}:exp:{j}:{i}" for i in range(len(es))]
    return out


class _Hang(BaseException):
    """a queue operation did not return (BaseException: nothing in the library may swallow it)"""


def _alarm(_sig, _frm):
    raise _Hang()


_HANGS = [0]


def run_history(res, packspec, ops):
    """Run ops on the real queue; return (input lines, obs list, state list); evaluate oracle. Every history runs under an
    alarm: the property says the queue terminates, so an operation that does not return is a violation, not a hang of the check."""
    import signal

    if _HANGS[0] >= 5:
        return None  # already reported five times: do not spend the run waiting for more
    old = signal.signal(signal.SIGALRM, _alarm)
    signal.setitimer(signal.ITIMER_REAL, 10.0 if _HANGS[0] == 0 else 2.0)
    try:
        return _run_history(res, packspec, ops)
    except _Hang:
        _HANGS[0] += 1
        res.fail("queue-operation-does-not-terminate", {"pack": packspec, "ops": ops},
                 "a history of at most 60 operations on the queue did not finish within 10 s (a next() or do_level() that never returns)")
        return None
    finally:
        signal.setitimer(signal.ITIMER_REAL, 0)
        signal.signal(signal.SIGALRM, old)


def _run_history(res, packspec, ops):
    ni, nn, sizes = packspec
    pack = mkpack(ni, nn, sizes)
    q = DefaultQueue(pack)
    inp = [f"pack {ni} {nn} {','.join(map(str, sizes)) if sizes else '-'}"]
    obs, states = ["ok"], [None]
    handed = []  # (packet string)
    stopped = set()
    added = []
    ninf_before_add = set()
    ninf_any = set()
    hist = {"pack": packspec, "ops": ops}

    def hand(s):
        l = int(s.split(":")[0])
        if l in stopped:
            res.fail("handed-after-stop", hist, f"{s} handed after stop/verified")
        if s in handed:
            res.fail("handed-twice", hist, f"{s} handed twice")
        handed.append(s)

    for op, l in ops:
        try:
            if op == "add":
                q.add(l)
                if l not in added:
                    added.append(l)
                inp.append(f"add {l}"); obs.append("-")
            elif op in ("stop", "ver"):
                (q.set_stop_yielding if op == "stop" else q.set_verified)(l)
                stopped.add(l)
                inp.append(f"stop {l}"); obs.append("-")
            elif op == "ninf":
                if l not in added:
                    ninf_before_add.add(l)
                ninf_any.add(l)
                q.set_not_inferrable(l)
                inp.append(f"ninf {l}"); obs.append("-")
            elif op == "next":
                inp.append("next")
                try:
                    wp = next(q)
                    s = showwp(wp)
                    hand(s)
                    obs.append(f"{s} L{q.levels_completed}")
                except StopIteration:
                    obs.append(f"stop L{q.levels_completed}")
                    # clause 4: exhaustion repeats and changes nothing
                    before = showq(q)
                    try:
                        w2 = next(q)
                        res.fail("exhaustion-not-sticky", hist, f"next after StopIteration returned {showwp(w2)}")
                    except StopIteration:
                        if showq(q) != before:
                            res.fail("exhaustion-changes-state", hist, "state changed by a repeated exhausted next")
                    # clause 3: drained => every added, never-stopped label got its complete work, in order
                    for a in added:
                        if a in stopped:
                            continue
                        mine = [h for h in handed if int(h.split(":")[0]) == a]
                        opts = []
                        if ni == 0 or a in ninf_before_add:
                            opts = [expected_seq(pack, a, False)]
                        elif a not in ninf_any:
                            opts = [expected_seq(pack, a, True)]
                        else:
                            opts = [expected_seq(pack, a, True), expected_seq(pack, a, False)]
                        if mine not in opts:
                            res.fail("drained-incomplete-or-misordered", hist, {"label": a, "handed": mine, "expected": opts[0]})
            elif op == "level":
                inp.append("level")
                out = []
                start = q.levels_completed
                try:
                    for wp in q.do_level():
                        s = showwp(wp)
                        if q.levels_completed != start and False:
                            pass
                        hand(s)
                        out.append(s)
                    # silent return: the counter must have advanced
                    if q.levels_completed == start:
                        res.fail("do_level-returned-without-advancing", hist, out)
                except NoMoreClassesToExpandError:
                    out.append("nomore")
                    if q.levels_completed != start:
                        res.fail("do_level-error-although-level-advanced", hist, out)
                obs.append((" ".join(out) + f" L{q.levels_completed}").strip())
        except Exception as exc:  # any other exception from the queue
            res.fail("queue-raises", hist, repr(exc))
            return None
        states.append(showq(q))
    return inp, obs, states


def rand_case(rnd, maxops=60):
    ni = rnd.randint(0, 2); nn = rnd.randint(0, 2); ne = rnd.randint(0, 3)
    sizes = [rnd.randint(0, 2) for _ in range(ne)]
    n = rnd.randint(1, 6)
    ops = []
    w = rnd.choice([["add", "add", "next", "next", "next", "stop", "ver", "ninf", "level"],
                    ["add", "next", "next", "next", "next", "level"],
                    ["add", "add", "add", "next", "stop", "ninf"]])
    for _ in range(rnd.randint(1, maxops)):
        ops.append((rnd.choice(w), rnd.randrange(n)))
    if rnd.random() < 0.5:
        ops += [("next", 0)] * rnd.randint(5, 60)  # drain
    return (ni, nn, sizes), ops


def check_cases(res, cases, tag):
    text, metas = [], []
    for packspec, ops in cases:
        r = run_history(res, packspec, ops)
        res.case((packspec, tuple(ops)), nontrivial=len(ops) >= 3 and any(o == "next" or o == "level" for o, _ in ops))
        for o, _ in ops:
            res.dist[f"{tag}:op={o}"] += 1
        res.dist[f"{tag}:pack inf={packspec[0]} init={packspec[1]} sets={len(packspec[2])}"] += 1
        if r is None:
            continue
        text += r[0]
        metas.append((packspec, ops, r[1], r[2], len(r[0])))
    lines = common.run_driver("C16", "\n".join(text) + "\n")
    assert len(lines) == len(text), (len(lines), len(text))
    pos = 0
    for packspec, ops, obs, states, k in metas:
        res.traces += 1
        chunk = lines[pos:pos + k]; pos += k
        bad = False
        for i in range(1, k):
            mo, _, ms = chunk[i].partition(" || "); mo = mo.strip()
            if mo != obs[i] and not bad:
                res.diff("queue hand-out/exhaustion/error/level", {"pack": packspec, "ops": ops[:i]}, mo, obs[i])
                bad = True
            if ms != states[i]:
                res.state_diffs += 1
                break
        if any(o.startswith("stop") for o in obs):
            res.dist[f"{tag}:drained"] += 1
        if any("nomore" in o for o in obs):
            res.dist[f"{tag}:do_level error"] += 1


def all_small(packs, labels, length):
    alphabet = [("next", 0), ("level", 0)] + [(o, l) for o in ("add", "stop", "ninf") for l in range(labels)]
    for p in packs:
        for k in range(1, length + 1):
            for ops in itertools.product(alphabet, repeat=k):
                yield p, list(ops) + [("next", 0)] * 12


def run(tier, seed, factor=1):
    res = common.Result("C16")
    res.rule = ("random packs (0-2 inferral, 0-2 initial, 0-3 expansion sets of 0-2 strategies) x random histories "
                "(1-60 ops over 1-6 labels from add/stop/verified/not-inferrable/next/do_level, half followed by a drain); "
                "thorough adds every history of length <=4 over 2 labels for 4 packs; non-trivial = >=3 ops incl. a next/do_level; "
                "distinct by (pack, op list)")
    rnd = random.Random(seed * 104729 + 16)
    n = common.scale(tier, 3000, 40000) * factor
    check_cases(res, [rand_case(rnd) for _ in range(n)], "rand")
    if tier == "thorough":
        packs = [(0, 1, [1]), (1, 1, [1, 2]), (1, 0, [2]), (0, 0, [1, 1])]
        ex = list(all_small(packs, 2, 4))
        check_cases(res, ex, "small")
        res.notes.append(f"small scope: all {len(ex)} histories of length <=4 over 2 labels for 4 packs (each followed by a drain)")
    return res


def search(tier, seed):
    return run(tier, seed + 1000, factor=3)


def replay(case):
    inp = case["input"]
    r = common.Result("C16")
    run_history(r, (inp["pack"][0], inp["pack"][1], list(inp["pack"][2])), [tuple(o) for o in inp["ops"]])
    return r.failures[0] if r.failures else None
