"""C20 — equations and generating functions agree with the true enumeration."""
import random

import sympy

import common
import rulecheck
import speccheck
import specrun
import upword
from comb_spec_searcher.exception import SpecificationNotFound, StrategyDoesNotApply
from comb_spec_searcher.exception import InvalidOperationError
from comb_spec_searcher.strategies.strategy import VerificationStrategy

LEVEL_NOTE = (
    "series arithmetic (add, convolution product, powers, substitution of statistic variables by monomials = re-keying) is "
    "an executable Lean model; rational_unique proven: when q0 != 0, Q*C = P (mod x^{M+1}) determines C up to order M, so "
    "counts that pass the check are the Taylor coefficients of P/Q at every order up to M; equations_unique is sol_unique; "
    "each emitted equation (cleared of denominators) is evaluated in Lean on the brute-force series of its classes"
)

X = sympy.var("x")


class Unsupported(Exception):
    pass


def mono_of(expr, vars_):
    """exponent vector of a monomial expression (product of powers of symbols)"""
    e = [0] * len(vars_)
    for f in sympy.Mul.make_args(expr):
        if f == 1:
            continue
        b, p = f.as_base_exp()
        if not (b.is_Symbol and p.is_Integer and p >= 0):
            raise Unsupported(f"argument {expr} is not a monomial")
        e[vars_.index(b)] += int(p)
    while e and e[-1] == 0:
        e.pop()
    return ".".join(map(str, e)) or "-"


def toks(expr, vars_, labels):
    if expr.is_Integer:
        return ["c", str(int(expr))]
    if expr.is_Symbol:
        return ["v", str(vars_.index(expr))]
    if expr.is_Add:
        args = list(expr.args)
        out = toks(args[0], vars_, labels)
        for a in args[1:]:
            out = ["+"] + out + toks(a, vars_, labels)
        return out
    if expr.is_Mul:
        args = list(expr.args)
        out = toks(args[0], vars_, labels)
        for a in args[1:]:
            out = ["*"] + out + toks(a, vars_, labels)
        return out
    if expr.is_Pow:
        b, p = expr.as_base_exp()
        if not (p.is_Integer and p >= 0):
            raise Unsupported(f"power {expr}")
        return ["^"] + toks(b, vars_, labels) + [str(int(p))]
    if isinstance(expr, sympy.core.function.AppliedUndef):
        name = expr.func.__name__
        if name not in labels:
            raise Unsupported(f"unknown function {name}")
        if expr.args[0] != X:
            raise Unsupported(f"first argument of {expr} is not x")
        ms = [mono_of(a, vars_) for a in expr.args[1:]]
        return ["F", str(labels[name]), str(len(ms))] + ms
    raise Unsupported(f"node {type(expr).__name__}: {expr}")


def maple_back(text):
    """an independent reader of the Maple rendering of an equation (`F[3, x, k[0]]`, `k[0]`, `(a * b)`, `**`): back to a sympy
    equation. Raises Unsupported when the text is not of that shape."""
    import re

    if "NOTIMPLEMENTED" in text or "Av(" in text:
        raise Unsupported("verification placeholder")
    out, stack, i = [], [], 0
    while i < len(text):
        m = re.match(r"F\[(\d+), ", text[i:])
        if m:
            out.append(f"F_{m.group(1)}(")
            stack.append(")")
            i += len(m.group(0))
            continue
        m = re.match(r"([A-Za-z]+)\[(\d+)\]", text[i:])
        if m:
            out.append(f"{m.group(1)}_{m.group(2)}")
            i += len(m.group(0))
            continue
        ch = text[i]
        if ch == "[":
            raise Unsupported("unexpected bracket in " + text)
        if ch == "]":
            if not stack:
                raise Unsupported("unbalanced bracket in " + text)
            out.append(stack.pop())
        else:
            out.append(ch)
        i += 1
    if stack:
        raise Unsupported("unbalanced bracket in " + text)
    sides = "".join(out).split(" = ")
    if len(sides) != 2:
        raise Unsupported("not one equation: " + text)
    try:
        return sympy.Eq(sympy.sympify(sides[0]), sympy.sympify(sides[1]), evaluate=False)
    except Exception as exc:  # noqa: BLE001
        raise Unsupported(f"unreadable: {exc}") from exc


def maple_problem(eq):
    """the Maple rendering of an emitted equation must state the same equation (it is what a user pastes into Maple): read it
    back independently and compare both sides; returns (kind, detail) or None"""
    from comb_spec_searcher.utils import sympy_expr_to_maple

    try:
        text = sympy_expr_to_maple(eq)
    except Exception as exc:  # noqa: BLE001
        return ("maple-rendering-raises", specrun.exc_info(exc))
    try:
        back = maple_back(text)
    except Unsupported as exc:
        return None if "placeholder" in str(exc) else ("maple-unreadable", f"{text}: {exc}")
    try:
        same = sympy.expand(back.lhs - eq.lhs) == 0 and sympy.expand(back.rhs - eq.rhs) == 0
    except Exception as exc:  # noqa: BLE001
        return ("maple-unreadable", f"{text}: {exc}")
    if not same:
        return ("maple-equation-differs", f"emitted for Maple: {text}   verified equation: {eq}")
    return None


def eq_lines(eq, classes, N, tabcap):
    """driver lines for one equation; classes: list of comb classes, function F_i <-> classes[i]"""
    num, den = sympy.fraction(sympy.together(eq.rhs))
    lhs = sympy.expand(eq.lhs * den)
    syms = sorted((eq.lhs.free_symbols | eq.rhs.free_symbols) - {X}, key=str)
    vars_ = [X] + syms
    labels = {f"F_{i}": i for i in range(len(classes))}
    lt = toks(lhs, vars_, labels)
    rt = toks(sympy.expand(num) if num.is_polynomial() and not num.atoms(sympy.core.function.AppliedUndef) else num, vars_, labels)
    lines = ["reset"]
    for i, c in enumerate(classes):
        lines.append(f"tab {i} " + ("+".join(f"{n}@{specrun.st(upword.true_terms(c, n))}" for n in range(tabcap + 1)) or "-"))
    lines.append(f"eq {len(vars_)} {N} " + " ".join(lt) + " ;; " + " ".join(rt))
    return lines


def form_worker(args):
    seed, count, N = args
    rnd = random.Random(seed)
    specrun.quiet()
    res = []
    for c, mode in rulecheck.classes(rnd, count, products=(seed % 2 == 0)):
        # a child with a statistic no parent statistic maps to is outside the documented contract of DisjointUnion
        # ("the extra variable of the child pointing [to] the variable on the parent it came from"): its variable stays free
        mode = mode.replace("track", "").strip()
        cand = []
        for s in rulecheck.strategies(mode):
            try:
                rule = s(c)
            except StrategyDoesNotApply:
                continue
            cand += list(rulecheck.forms(rule))
        cand += rulecheck.paths(c, mode, rnd)
        for name, r in cand:
            if r.comb_class.is_empty():
                continue
            o = {"rule": f"{type(r).__name__} {r.comb_class!r} -> {r.children!r} via {r.strategy!r}", "form": name,
                 "constructor": "?"}
            if not name.startswith("path"):
                o["desc"] = {"class": c.to_jsonable(), "sw": isinstance(c, upword.SW), "mode": mode,
                             "strategy": type(r.strategy).__name__, "form": name, "repr": repr(r.strategy)}
            form_eval(o, r, N)
            res.append(o)
    return res


def form_eval(o, r, N):
    if True:
        if True:
            classes = []

            def get_function(cc):
                if cc not in classes:
                    classes.append(cc)
                return sympy.Function(f"F_{classes.index(cc)}")(X, *[sympy.var(k) for k in cc.extra_parameters])

            try:
                o["constructor"] = type(r.constructor).__name__
                eq = r.get_equation(get_function)
                if isinstance(eq, bool) or eq in (sympy.true, sympy.false):
                    o["skip"] = "equation collapsed to a boolean"
                else:
                    o["eq"] = str(eq)
                    mp = maple_problem(eq)
                    if mp is not None:
                        o["maple"] = [mp]
                    o["lines"] = eq_lines(eq, classes, N, N + 5)
            except NotImplementedError:
                o["skip"] = "not implemented"
            except Unsupported as exc:
                o["skip"] = f"unsupported: {exc}"
            except Exception as exc:  # noqa: BLE001
                o["exc"] = specrun.exc_info(exc)


class ImplicitVer(VerificationStrategy):
    """verifies a pattern-free word class and gives its generating function implicitly, through the placeholder `F` the library
    documents for verification strategies: F = x^|prefix| + |alphabet| x F"""

    def verified(self, c):
        return isinstance(c, upword.PW) and not c.patterns and not c.params and not c.just_prefix

    def formal_step(self):
        return "implicit closed form"

    def get_genf(self, c, funcs=None):
        if not self.verified(c):
            raise StrategyDoesNotApply("not verified")
        return X ** len(c.prefix) + len(c.alphabet) * X * sympy.var("F")

    def get_terms(self, c, n):
        return upword.true_terms(c, n)

    def pack(self, c):
        raise InvalidOperationError("no pack")

    @classmethod
    def from_dict(cls, d):
        return cls()


def implicit_outputs(N):
    """equations of verification rules whose strategy answers implicitly (placeholder F), asked for with every kind of function table"""
    outs = []
    for prefix, alpha in [("a", "ab"), ("ab", "ab"), ("ba", "abc"), ("c", "abc"), ("aab", "ab")]:
        c = upword.PW(prefix, [], alpha)
        rule = ImplicitVer()(c)
        for tag in ("no table", "empty table", "table with the class"):
            classes = []

            def get_function(cc):
                if cc not in classes:
                    classes.append(cc)
                return sympy.Function(f"F_{classes.index(cc)}")(X, *[sympy.var(k) for k in cc.extra_parameters])

            o = {"rule": f"VerificationRule {c!r} via ImplicitVer", "form": "verification-implicit (" + tag + ")", "constructor": "verification"}
            try:
                f0 = get_function(c)
                eq = rule.get_equation(get_function, None if tag == "no table" else ({} if tag == "empty table" else {c: f0}))
                o["eq"] = str(eq)
                o["lines"] = eq_lines(eq, classes, N, N + 5)
            except Exception as exc:  # noqa: BLE001
                o["exc"] = specrun.exc_info(exc)
            outs.append(o)
    return outs


def spec_worker(args):
    import signal

    signal.signal(signal.SIGALRM, speccheck._alarm)
    signal.alarm(60)
    try:
        return _spec_worker(args)
    except speccheck.Timeout:
        return {"cfg": args[0], "status": "timeout", "eqs": []}
    finally:
        signal.alarm(0)


def _spec_worker(args):
    cfg, N = args
    out = {"cfg": cfg, "eqs": [], "problems": []}
    specrun.quiet()
    if "track" in (cfg.get("mode") or ""):
        out["status"] = "skipped: child with an unmapped statistic (outside the contract of the union's equation)"
        return out
    try:
        root, spec, _ = specrun.search(cfg)
    except SpecificationNotFound:
        out["status"] = "nospec"
        return out
    except speccheck.Timeout:
        raise
    except Exception as exc:  # noqa: BLE001
        out["status"] = "exc"
        return out
    out["status"] = "spec"
    try:
        for rule in list(spec):
            for ch in rule.children:
                spec.get_rule(ch)
        bylabel = {}
        for c in spec.rules_dict:
            bylabel[spec.get_label(c)] = c
        for rule in list(spec):
            for ch in rule.children:
                bylabel[spec.get_label(ch)] = ch
        nlab = max(bylabel) + 1
        classes = [bylabel.get(i) for i in range(nlab)]
        for eq in spec.get_equations():
            mp = maple_problem(eq)
            if mp is not None:
                out.setdefault("maple", []).append(mp)
            out["maple_n"] = out.get("maple_n", 0) + 1
            names = {f.func.__name__ for f in eq.atoms(sympy.core.function.AppliedUndef)}
            if not all(nm.startswith("F_") and nm[2:].isdigit() for nm in names):
                out["eqs"].append((str(eq), None))
                continue
            used = {int(nm[2:]) for nm in names}
            try:
                sub = [c if (i in used) else upword.PW("z", ["z"], "z") for i, c in enumerate(classes)]
                out["eqs"].append((str(eq), eq_lines(eq, sub, N, N + 5)))
            except Unsupported as exc:
                out["eqs"].append((str(eq), None))
        # closed form for parameter-free, small specifications
        if not root.extra_parameters and len(spec.rules_dict) <= (16 if "V" in (cfg.get("gram") or ()) else 9):
            try:
                g = spec.get_genf()
                specrun.quiet()
                num, den = sympy.fraction(sympy.together(g))
                if num.is_polynomial(X) and den.is_polynomial(X):
                    P, Q = sympy.Poly(num, X), sympy.Poly(den, X)
                    pc, qc = P.all_coeffs()[::-1], Q.all_coeffs()[::-1]
                    mult = sympy.ilcm(*[sympy.Rational(v).q for v in pc + qc])
                    pc = [int(v * mult) for v in pc]
                    qc = [int(v * mult) for v in qc]
                    M = 30
                    counts = [spec.count_objects_of_size(n) for n in range(M + 1)]
                    out["rat"] = (str(g), f"rat {M} {','.join(map(str, pc))} | {','.join(map(str, qc))} | {','.join(map(str, counts))}")
                    out["rat_truth"] = counts[: N + 1] == [sum(upword.true_terms(root, n).values()) for n in range(N + 1)]
                else:
                    # a closed form that is not rational: expanded by sympy (trusted for this step) and compared with the counts
                    M = 16
                    ser = sympy.series(g, X, 0, M + 1).removeO()
                    coeffs = [ser.coeff(X, n) for n in range(M + 1)]
                    counts = [spec.count_objects_of_size(n) for n in range(M + 1)]
                    out["alg"] = (str(g), [str(c) for c in coeffs] == [str(c) for c in counts],
                                  counts[: N + 1] == [sum(upword.true_terms(root, n).values()) for n in range(N + 1)],
                                  f"series {coeffs[:10]} counts {counts[:10]}")
            except speccheck.Timeout:
                raise
            except Exception as exc:  # noqa: BLE001
                specrun.quiet()
                out["rat_skipped"] = specrun.exc_info(exc)
    except speccheck.Timeout:
        raise
    except Exception as exc:  # noqa: BLE001
        out["problems"].append(("equations-raise", specrun.exc_info(exc)))
    return out


def run(tier, seed, factor=1):
    res = common.Result("C20")
    res.rule = ("(a) the equation of every rule form of C09's universe (all parameter modes incl. several parent statistics merged onto one child "
                "statistic, forward and reverse rules, equivalence paths, verification rules) and (b) every equation of specifications from real "
                "searches, each cleared of denominators and evaluated in Lean on the brute-force series of its classes to order N (beyond the "
                "built-in check of 6); (c) closed forms of small parameter-free specifications: numerator/denominator vs the counts to order 30; "
                "non-trivial = an equation that was evaluated; distinct by (rule, form) / config")
    N = common.scale(tier, 7, 8)
    jobs = [(seed * 967 + i, common.scale(tier, 5, 15), N) for i in range(common.scale(tier, 48, 160) * factor)]
    fouts = [o for part in specrun.pool_map(form_worker, jobs) for o in part]
    fouts += implicit_outputs(N)
    rnd = random.Random(seed * 1000003 + 20)
    scfgs = speccheck.make_configs(rnd, common.scale(tier, 100, 800) * factor)
    grnd = random.Random(seed * 86028121 + 20)
    for _ in range(common.scale(tier, 8, 60) * factor):  # U-gram variant D (Dyck words): algebraic closed forms, a repeated non-atom factor
        scfgs.append(dict(gram=[grnd.choice(["D", "H", "H"])] + [grnd.choice(["F", "P", "S"]) for _ in range(grnd.choice([0, 0, 1]))], gram_flat=True, alpha="ab",
                          db=grnd.choice(["RuleDB", "RuleDBForgetStrategy", "RuleDBForest"]), seed=grnd.randrange(10**6), perc=grnd.choice([100, 20, 1]),
                          smallest=False, expand_verified=False))
    vrnd = random.Random(seed * 49979687 + 20)
    for _ in range(common.scale(tier, 2, 8)):  # U-gram variant V: a reverse union rule inside an algebraic system (forest store only)
        scfgs.append(dict(gram=["V"], gram_flat=True, alpha="ab", db="RuleDBForest", seed=vrnd.randrange(10**6), perc=vrnd.choice([100, 20]),
                          smallest=False, expand_verified=False))
    souts = specrun.pool_map(spec_worker, [(c, N) for c in scfgs])
    specrun.quiet()
    lines, metas = [], []
    for o in fouts:
        key = "form=" + o["form"].split("-")[0][:4] + ("-equiv" if "equiv" in o["form"] else "")
        res.case((o["rule"], o["form"]), nontrivial="lines" in o)
        res.dist[key] += 1
        if "exc" in o:
            res.fail("get_equation-raises", {"rule": o["rule"], "form": o["form"]}, o["exc"])
        elif "skip" in o:
            res.dist["skipped: " + o["skip"][:50]] += 1
        else:
            res.dist["equation of " + o["constructor"]] += 1
            for kind, detail in o.get("maple", [])[:1]:
                if kind == "maple-equation-differs":
                    res.fail("maple-equation-differs-from-the-emitted-equation", {"rule": o["rule"], "form": o["form"], "desc": o.get("desc")}, detail)
                else:
                    res.diff("the Maple rendering of an equation, read back independently", {"rule": o["rule"], "form": o["form"]}, detail[:300],
                             "a readable rendering of the same equation")
            lines += o["lines"]
            metas.append((len(o["lines"]), {"rule": o["rule"], "form": o["form"], "equation": o["eq"], "desc": o.get("desc")}, "eq"))
    for o in souts:
        res.case(("cfg", repr(sorted(o["cfg"].items()))), nontrivial=bool(o["eqs"]))
        res.dist["spec:" + o["status"]] += 1
        for sig, detail in o.get("problems", []):
            res.fail(sig, o["cfg"], detail)
        res.dist["spec equations read back from their Maple rendering"] += o.get("maple_n", 0)
        for kind, detail in o.get("maple", [])[:1]:
            if kind == "maple-equation-differs":
                res.fail("maple-equation-differs-from-the-emitted-equation", o["cfg"], detail)
            else:
                res.diff("the Maple rendering of an equation, read back independently", o["cfg"], detail[:300], "a readable rendering of the same equation")
        for eqs, ls in o["eqs"]:
            if ls is None:
                res.dist["spec equation unsupported"] += 1
                continue
            lines += ls
            metas.append((len(ls), {"cfg": o["cfg"], "equation": eqs}, "eq"))
            res.dist["spec equations evaluated"] += 1
        if "rat" in o:
            lines.append(o["rat"][1])
            metas.append((1, {"cfg": o["cfg"], "genf": o["rat"][0]}, "rat"))
            res.dist["closed forms checked"] += 1
            if not o["rat_truth"]:
                res.fail("counts-ne-truth", o["cfg"], "")
        elif "alg" in o:
            res.dist["closed forms checked (not rational: sympy series to order 16)"] += 1
            if not o["alg"][1]:
                res.fail("closed-form-taylor-coefficients-ne-counts", {"cfg": o["cfg"], "genf": o["alg"][0]}, o["alg"][3])
            if not o["alg"][2]:
                res.fail("counts-ne-truth", o["cfg"], "")
        elif "rat_skipped" in o:
            res.dist["closed form skipped: " + o["rat_skipped"][:40]] += 1
    # (d) the series expansion used to select (and returned with) a closed form: taylor_expand on rational functions, incl.
    # polynomials of degree below the order and functions of x^2 (zero top coefficients), verified by the Lean series model
    from comb_spec_searcher.utils import taylor_expand

    trnd = random.Random(seed * 31 + 5)
    for _ in range(common.scale(tier, 60, 400) * factor):
        gap = trnd.random() < 0.3
        pc = [trnd.randint(-3, 3) for _ in range(trnd.randint(1, 4))]
        qc = [trnd.choice([1, 1, -1])] + ([trnd.randint(-2, 2) for _ in range(trnd.randint(0, 3))] if trnd.random() < 0.7 else [])
        if gap:
            pc = [v for c in pc for v in (c, 0)]
            qc = [v for c in qc for v in (c, 0)]
        M = trnd.randint(max(len(pc), 1), 12)
        g = sum(c * X**i for i, c in enumerate(pc)) / sum(c * X**i for i, c in enumerate(qc))
        inp = {"numerator": pc, "denominator": qc, "order": M}
        try:
            te = [int(v) for v in taylor_expand(g, M)]
        except Exception as exc:  # noqa: BLE001
            res.diff("taylor_expand raises on a rational function with unit constant denominator", inp, "coefficients", specrun.exc_info(exc))
            continue
        if len(te) != M + 1:
            res.diff("taylor_expand returns a list of the wrong length", inp, M + 1, len(te))
            continue
        lines.append(f"rat {M} {','.join(map(str, pc))} | {','.join(map(str, qc))} | {','.join(map(str, te))}")
        metas.append((1, inp, "taylor"))
        res.dist["taylor_expand checked" + (" (function of x^2)" if gap else (" (polynomial of degree below the order)" if len(qc) == 1 and len(pc) <= M else ""))] += 1
    out = common.run_driver("C20", "\n".join(lines) + "\n") if lines else []
    assert len(out) == len(lines), (len(out), len(lines))
    pos = 0
    for k, inp, kind in metas:
        verdict = out[pos + k - 1]
        pos += k
        res.traces += 1
        if kind == "eq":
            if verdict == "bad-op":
                raise RuntimeError(f"driver rejected {inp}")
            if verdict != "zero":
                res.fail("equation-false-on-true-series", inp, verdict)
        elif kind == "taylor":
            if verdict != "rat-ok":
                res.diff("taylor_expand vs the Lean series of numerator/denominator", inp, verdict, "")
        else:
            if verdict != "rat-ok":
                res.fail("closed-form-coefficients-ne-counts", inp, verdict)
    return res


def search(tier, seed):
    return run(tier, seed + 1000, factor=2)


def replay(case):
    desc = case["input"].get("desc")
    if not desc:
        return "re-run the check with the recorded seed (equations are regenerated from it)"
    c = (upword.SW if desc.get("sw") else upword.PW).from_dict(dict(desc["class"]))
    for s in rulecheck.strategies(desc["mode"]):
        if repr(s) == desc["repr"]:
            for name, r in rulecheck.forms(s(c)):
                if name == desc["form"]:
                    o = {"rule": "", "form": name, "constructor": "?"}
                    form_eval(o, r, 7)
                    if "lines" in o:
                        verdict = common.run_driver("C20", "\n".join(o["lines"]) + "\n")[-1]
                        if verdict != "zero":
                            return {"signature": "equation-false-on-true-series", "input": case["input"], "detail": verdict}
    return None
