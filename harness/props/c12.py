"""C12 — a constructed bijection is a size-preserving bijection with a true inverse."""
import itertools
import json
import random

import common
import speccheck
import specrun
from comb_spec_searcher import AtomStrategy, CombinatorialSpecification, CombinatorialSpecificationSearcher, StrategyPack
from comb_spec_searcher.exception import SpecificationNotFound
from comb_spec_searcher.isomorphism import Bijection, Isomorphism
from comb_spec_searcher.rule_db import RuleDB, RuleDBForest, RuleDBForgetStrategy
from comb_spec_searcher.strategies.rule import EquivalencePathRule, Rule, VerificationRule
from comb_spec_searcher.strategies.constructor import CartesianProduct, DisjointUnion
from example import AvoidingWithPrefix, ExpansionStrategy, RemoveFrontOfPrefix, Word

LEVEL_NOTE = (
    "permInv_spec proven (the inverse order used by inverse_map inverts the matching permutation); isoRef (greatest "
    "relation closed under 'same constructor, equally many non-empty children, children matchable by a permutation') is "
    "an executable Lean reference used as an upper bound of the matcher; the three clauses are decided on the Python "
    "objects: symmetry by calling both orders, reflexivity by check(s, s), and every constructed bijection by brute "
    "force on all objects up to the bound (image set, injectivity, both round trips), incl. after a JSON round trip"
)

DBS = {"RuleDB": RuleDB, "RuleDBForgetStrategy": RuleDBForgetStrategy, "RuleDBForest": RuleDBForest}


def word_spec(avoid, alphabet, db="RuleDB", seed=0, prefix=""):
    pack = StrategyPack(
        initial_strats=[RemoveFrontOfPrefix()], inferral_strats=[], expansion_strats=[[ExpansionStrategy()]],
        ver_strats=[AtomStrategy()], name="words",
    )
    start = AvoidingWithPrefix(prefix, avoid, alphabet)
    s = CombinatorialSpecificationSearcher(start, pack, ruledb=DBS[db]())
    specrun.quiet()
    st = random.getstate()
    random.seed(seed)
    try:
        spec = s.auto_search()
    finally:
        random.setstate(st)
        specrun.quiet()
    return spec


def build_spec(pt, al, db, sd, reloaded, prefix=""):
    sp = word_spec(pt, al, db, sd, prefix)
    if reloaded:
        sp = CombinatorialSpecification.from_dict(json.loads(json.dumps(sp.to_jsonable())))
    return sp


def images(avoid, alphabet):
    """pattern sets that are images of `avoid` under a relabelling of the alphabet: isomorphic candidates"""
    out = []
    for perm in itertools.permutations(alphabet):
        t = str.maketrans("".join(alphabet), "".join(perm))
        out.append(sorted(p.translate(t) for p in avoid))
    return out


def rand_patterns(rnd, alpha):
    m = 4 if len(alpha) == 2 else 3
    return sorted({"".join(rnd.choice(alpha) for _ in range(rnd.randint(1, m))) for _ in range(rnd.randint(1, 3))})


def skeleton(spec):
    """the specification as a grammar for isoRef: a:size / u:children / p:children (empty children dropped, class 0 = root)"""
    idx = {}

    def ci(c):
        return idx.setdefault(c, len(idx))

    ci(spec.root)
    todo = [spec.root]
    rules = {}
    while todo:
        c = todo.pop()
        if ci(c) in rules:
            continue
        r = spec.rules_dict[c]
        if isinstance(r, VerificationRule):
            rules[ci(c)] = f"a:{c.minimum_size_of_object()}"
            continue
        kids = [k for k in r.children if not k.is_empty()]
        kind = "p" if isinstance(r.constructor, CartesianProduct) else "u"
        if kind == "u" and len(kids) == 1 and not r.is_equivalence():
            # a unary rule that is not an equivalence is a real node of the tree (the reference relation skips unary unions):
            # encoded as a one-factor product, which the reference does not skip
            kind = "p"
        rules[ci(c)] = f"{kind}:{','.join(str(ci(k)) for k in kids)}"
        todo += kids
    return ";".join(rules[i] for i in range(len(idx)))


def judge_pair(name1, s1, name2, s2, N, out):
    """all clauses of the property for the ordered pair (s1, s2)"""
    inp = {"spec1": name1, "spec2": name2}
    try:
        a = Isomorphism.check(s1, s2)
        b = Isomorphism.check(s2, s1)
    except Exception as exc:  # noqa: BLE001
        out["problems"].append(("isomorphism-check-raises", inp, specrun.exc_info(exc)))
        return
    out["pairs"] += 1
    if a != b:
        out["problems"].append(("isomorphism-check-not-symmetric", inp, f"check(1,2)={a}, check(2,1)={b}"))
    out["lines"].append((f"{skeleton(s1)} {skeleton(s2)}", a, inp))
    try:
        bij = Bijection.construct(s1, s2)
    except Exception as exc:  # noqa: BLE001
        out["problems"].append(("bijection-construct-raises", inp, specrun.exc_info(exc)))
        return
    if (bij is not None) != a:
        out["problems"].append(("construct-disagrees-with-check", inp, ""))
    if bij is None:
        return
    out["bijections"] += 1
    # the JSON form of the matching, for the Lean model of _classes_to_array / _populate_json_map / from_dict (BijJson.lean)
    try:
        import copy

        from comb_spec_searcher.combinatorial_class import CombinatorialClass

        ids = {}

        def cid(c):
            return ids.setdefault(c, len(ids))

        def so(o):
            return ".".join(map(str, o)) or "_"

        # pylint: disable=protected-access
        ent = ";".join(f"{cid(a)}-{cid(b)}:{so(o)}" for (a, b), o in bij._get_order.items())
        j = json.loads(json.dumps(bij.to_jsonable()))
        arr = ",".join(str(cid(CombinatorialClass.from_dict(copy.deepcopy(c)))) for c in j["classes"])
        jm = ";".join(f"{i1}>" + "/".join(f"{i2}:{so(o)}" for i2, o in sub.items()) for i1, sub in j["order"].items())
        back = ";".join(f"{cid(a)}-{cid(b)}:{so(o)}" for (a, b), o in Bijection.from_dict(copy.deepcopy(j))._get_order.items())
        if all(isinstance(x, int) for o in bij._get_order.values() for x in o):
            out.setdefault("bijson", []).append((ent, f"{arr} | {jm} | {back}", inp))
    except Exception:  # noqa: BLE001  (reported below as bijection-json-roundtrip-raises)
        pass
    cands = [("constructed", bij)]
    try:
        cands.append(("reloaded from JSON", Bijection.from_dict(json.loads(json.dumps(bij.to_jsonable())))))
    except Exception as exc:  # noqa: BLE001
        out["problems"].append(("bijection-json-roundtrip-raises", inp, specrun.exc_info(exc)))
    for tag, bj in cands:
        try:
            for n in range(N + 1 - (1 if len(getattr(s1.root, 'alphabet', 'ab')) > 2 else 0)):
                dom = sorted(s1.root.objects_of_size(n))
                cod = sorted(s2.root.objects_of_size(n))
                img = [bj.map(w) for w in dom]
                if sorted(img) != cod:
                    out["problems"].append(("map-is-not-a-bijection-onto-the-codomain", inp,
                                            f"{tag}, size {n}: {len(dom)} objects -> {len(set(img))} distinct images, codomain has {len(cod)}"))
                    return
                if any(len(v) != n for v in img):
                    out["problems"].append(("map-not-size-preserving", inp, f"{tag}, size {n}"))
                    return
                if [bj.inverse_map(v) for v in img] != dom:
                    out["problems"].append(("inverse-does-not-undo-map", inp, f"{tag}, size {n}"))
                    return
                if [bj.map(bj.inverse_map(v)) for v in cod] != cod:
                    out["problems"].append(("map-does-not-undo-inverse", inp, f"{tag}, size {n}"))
                    return
                if tag != "constructed" and img != [bij.map(w) for w in dom]:
                    out["problems"].append(("reloaded-bijection-maps-differently", inp, f"size {n}"))
                    return
        except Exception as exc:  # noqa: BLE001
            out["problems"].append(("bijection-map-raises", inp, f"{tag}: {specrun.exc_info(exc)}"))
            return


def upword_specs(rnd, pad=False):
    """a group of specifications from the U-pword universe with relabelling strategies (one- and two-way), so that equivalence
    paths of several steps with non-identity object maps occur: a class, the same class through another database / seed,
    its image under a relabelling of the alphabet, an unrelated class"""
    import upword

    base = specrun.rand_config(rnd, "rot")
    base.update(params=[], mode="", prefver=None, packver=None, factory=None, expand_verified=False, reverse=False,
                iterative=False, smallest=False, db=rnd.choice(["RuleDB", "RuleDBForgetStrategy"]))
    al = base["alpha"]
    perm = list(al)
    rnd.shuffle(perm)
    t = str.maketrans(al, "".join(perm))
    if pad:
        base.update(rot="pad", alpha="abc")
        base["patterns"] = upword.rand_patterns(rnd, "abc", 3, 2)
        al = base["alpha"]
        perm = list(al)
        rnd.shuffle(perm)
        t = str.maketrans(al, "".join(perm))
    variants = [base,
                dict(base, seed=rnd.randrange(10**6), db=rnd.choice(["RuleDB", "RuleDBForgetStrategy"]), perc=rnd.choice([100, 20, 1])),
                dict(base, patterns=sorted(p.translate(t) for p in base["patterns"]), seed=rnd.randrange(10**6)),
                dict(base, patterns=upword.rand_patterns(rnd, al, 3, 2))]
    specs = []
    for cfg in variants:
        try:
            _root, sp, _ = specrun.search(cfg)
            specs.append(({"cfg": cfg}, sp))
        except SpecificationNotFound:
            pass
        except speccheck.Timeout:
            raise
        except Exception:  # noqa: BLE001  (faults of a plain search belong to C01/C04)
            pass
        finally:
            specrun.quiet()
    return specs


def dot_specs(rnd):
    """specifications of u.v with u, v avoiding the same patterns (a product with the same non-atom child class on both sides
    of the separator): a class, its image under a relabelling of the alphabet, an unrelated class"""
    import upword

    al = rnd.choice(["ab", "ab", "abc"])
    pats = upword.rand_patterns(rnd, al, 3, 2)
    perm = list(al)
    rnd.shuffle(perm)
    t = str.maketrans(al, "".join(perm))
    groups = [pats, sorted(p.translate(t) for p in pats), upword.rand_patterns(rnd, al, 3, 2)]
    specs = []
    for pt in groups:
        db = rnd.choice(list(DBS))
        sd = rnd.randrange(1000)
        try:
            specs.append(({"dot": list(pt), "alphabet": al, "db": db, "seed": sd}, dot_spec(pt, al, db, sd)))
        except SpecificationNotFound:
            pass
        except speccheck.Timeout:
            raise
        except Exception:  # noqa: BLE001  (faults of a plain search belong to C01/C04)
            pass
        finally:
            specrun.quiet()
    return specs


def gram_specs(rnd):
    """specifications of a U-gram universe whose rule `mark a letter` is not injective forwards (a NonBijectiveRule: the maps of a
    bijection have to carry the index of the preimage): the same universe found twice (other database / seed / time slicing)"""
    sig = rnd.choice(["N", "N", "NN", "NP"])
    specs = []
    for _ in range(2):
        cfg = dict(gram=list(sig), gram_flat=True, alpha="ab", db=rnd.choice(["RuleDB", "RuleDBForgetStrategy", "RuleDBForest"]),
                   seed=rnd.randrange(10**6), perc=rnd.choice([100, 20, 1]), smallest=False, expand_verified=False)
        try:
            specs.append(({"cfg": cfg}, specrun.search(cfg)[1]))
        except SpecificationNotFound:
            pass
        except speccheck.Timeout:
            raise
        except Exception:  # noqa: BLE001  (faults of a plain search belong to C01/C04)
            pass
        finally:
            specrun.quiet()
    return specs


def dot_spec(pt, al, db, sd):
    import upword
    from comb_spec_searcher.class_db import ClassDB

    pack = StrategyPack(initial_strats=[upword.Peel("")], inferral_strats=[], expansion_strats=[[upword.SplitDot(), upword.Expand("")]],
                        ver_strats=[upword.PAtom()], name="dot")
    s = CombinatorialSpecificationSearcher(upword.SW1(pt, al, "."), pack, ruledb=DBS[db](), classdb=ClassDB(upword.PW))
    specrun.quiet()
    st = random.getstate()
    random.seed(sd)
    try:
        return s.auto_search()
    finally:
        random.setstate(st)
        specrun.quiet()


def worker(args):
    import signal

    seed, count, N = args
    signal.signal(signal.SIGALRM, speccheck._alarm)
    signal.alarm(120)
    rnd = random.Random(seed)
    out = {"problems": [], "pairs": 0, "bijections": 0, "lines": [], "specs": 0, "seed": seed}
    try:
        specrun.quiet()
        for _ in range(count):
            alpha = rnd.choice([["0", "1"], ["a", "b"], ["0", "1", "2"]])
            pats = rand_patterns(rnd, alpha)
            group = [(pats, alpha)]
            for im in rnd.sample(images(pats, alpha), min(2, len(images(pats, alpha)))):
                group.append((im, alpha))
            if rnd.random() < 0.5:  # the same language over another alphabet
                other = ["x", "y", "z"][: len(alpha)]
                t = str.maketrans("".join(alpha), "".join(other))
                group.append((sorted(p.translate(t) for p in pats), other))
            group.append((rand_patterns(rnd, alpha), alpha))  # unrelated
            if len(alpha) == 2 and rnd.random() < 0.6:
                # several two-pattern sets of length-3 patterns: different classes that happen to be isomorphic, so that a
                # class of one specification has several partners in the other
                for _ in range(3):
                    group.append((sorted({"".join(rnd.choice(alpha) for _ in range(3)) for _ in range(2)}), alpha))
            if rnd.random() < 0.5:  # a near miss: one letter of one pattern changed
                p2 = list(pats)
                i = rnd.randrange(len(p2))
                j = rnd.randrange(len(p2[i]))
                p2[i] = p2[i][:j] + rnd.choice(alpha) + p2[i][j + 1:]
                group.append((sorted(set(p2)), alpha))
            specs = []
            for pt, al in group:
                try:
                    db = rnd.choice(list(DBS))
                    sd = rnd.randrange(1000)
                    rj = rnd.random() < 0.3
                    sp = build_spec(pt, al, db, sd, rj)
                    specs.append(({"avoid": list(pt), "alphabet": list(al), "db": db, "seed": sd, "reloaded": rj}, sp))
                except SpecificationNotFound:
                    pass
                except speccheck.Timeout:
                    raise
                except Exception as exc:  # noqa: BLE001
                    out["problems"].append(("search-raises", {"avoid": pt, "alphabet": al}, specrun.exc_info(exc)))
            pr = random.Random(seed * 2003 + len(specs))  # its own stream
            for _ in range(pr.choice([0, 1, 2])):
                # start classes with a non-empty prefix: the same shape of specification with atoms of other sizes
                pt, al = pr.choice(group)
                pre = "".join(pr.choice(al) for _ in range(pr.choice([1, 1, 2])))
                db, sd = pr.choice(list(DBS)), pr.randrange(1000)
                if AvoidingWithPrefix(pre, pt, al).is_empty():
                    continue  # the specification of an empty class is one rule of the empty strategy: not a specification whose verified classes are atoms
                try:
                    sp = build_spec(pt, al, db, sd, False, pre)
                    specs.append(({"avoid": list(pt), "alphabet": list(al), "db": db, "seed": sd, "reloaded": False, "prefix": pre}, sp))
                except SpecificationNotFound:
                    pass
                except speccheck.Timeout:
                    raise
                except Exception:  # noqa: BLE001  (an empty start class makes the searcher raise: not this property's matter)
                    pass
            if rnd.random() < 0.4:
                specs += upword_specs(rnd)
            xr = random.Random(seed * 1009 + out["specs"])  # its own stream: the groups above keep theirs
            if xr.random() < 0.35:  # relabellings padded with an empty first child: the equivalence's non-empty child is child 1
                pads = upword_specs(random.Random(xr.randrange(10**9)), pad=True)
                out["specs"] += len(pads)
                for (n1, a), (n2, b) in itertools.combinations(pads, 2):
                    judge_pair(n1, a, n2, b, min(N, 5), out)
            dots = dot_specs(random.Random(xr.randrange(10**9))) if xr.random() < 0.5 else []
            out["specs"] += len(specs)
            for name, sp in specs:
                # reflexivity: all verified classes of these specifications are atoms
                try:
                    if not Isomorphism.check(sp, sp):
                        out["problems"].append(("isomorphism-check-not-reflexive", {"spec1": name, "spec2": name}, ""))
                except Exception as exc:  # noqa: BLE001
                    out["problems"].append(("isomorphism-check-raises", {"spec1": name, "spec2": name}, specrun.exc_info(exc)))
            for (n1, a), (n2, b) in itertools.combinations(specs, 2):
                if ("cfg" in n1) == ("cfg" in n2):  # within one universe
                    judge_pair(n1, a, n2, b, N, out)
            if specs:
                judge_pair(specs[0][0], specs[0][1], specs[0][0], specs[0][1], N, out)
            grams = gram_specs(random.Random(xr.randrange(10**9))) if xr.random() < 0.4 else []
            out["specs"] += len(grams)
            for (n1, a), (n2, b) in itertools.combinations(grams, 2):
                judge_pair(n1, a, n2, b, min(N, 5), out)
            out["specs"] += len(dots)
            for (n1, a), (n2, b) in itertools.combinations(dots, 2):
                judge_pair(n1, a, n2, b, min(N, 5), out)
            if dots:
                judge_pair(dots[0][0], dots[0][1], dots[0][0], dots[0][1], min(N, 5), out)
    except speccheck.Timeout:
        out["timeout"] = True
    finally:
        signal.alarm(0)
    return out


def run(tier, seed, factor=1):
    res = common.Result("C12")
    res.rule = ("groups of specifications of word classes (the library's example universe, alphabets of 2-3 letters, 1-3 patterns of length <=4): "
                "a class, its images under relabellings, the same language over another alphabet, an unrelated class, a near miss; found with "
                "any of the three databases, some reloaded from JSON; every pair in both orders, every specification against itself; every "
                "constructed bijection (and its JSON reload) by brute force on all objects up to size N; Python's verdict vs the Lean isoRef; "
                "non-trivial = a pair of specifications; distinct by (seed)")
    N = common.scale(tier, 6, 7)
    jobs = [(seed * 7877 + i, common.scale(tier, 3, 6), N) for i in range(common.scale(tier, 48, 240) * factor)]
    outs = specrun.pool_map(worker, jobs)
    specrun.quiet()
    lines = [l for o in outs for l in o["lines"]]
    lean = common.run_driver("IsoRef", "\n".join(l[0] for l in lines) + "\n") if lines else []
    for (text, py, inp), ref in zip(lines, lean):
        res.dist["check says isomorphic" if py else "check says not isomorphic"] += 1
        if py and ref != "True":
            res.diff("Isomorphism.check accepts a pair the reference relation rejects", inp, ref, str(py))
        if (not py) and ref == "True":
            res.dist["reference accepts, matcher rejects (incompleteness, not claimed)"] += 1
    for o in outs:
        res.case(("seed", o["seed"], o["pairs"]), nontrivial=o["pairs"] >= 1)
        res.dist["specifications"] += o["specs"]
        res.dist["pairs"] += o["pairs"]
        res.dist["bijections constructed"] += o["bijections"]
        if o.get("timeout"):
            res.dist["timeout"] += 1
        res.traces += o["pairs"]
        seen = set()
        for sig, inp, d in o["problems"]:
            if (sig, repr(inp)) not in seen:
                seen.add((sig, repr(inp)))
                res.fail(sig, inp, d)
    return res


def search(tier, seed):
    return run(tier, seed + 1000, factor=2)


def replay(case):
    inp = case["input"]
    if not isinstance(inp.get("spec1"), dict):
        return "re-run the check with the recorded seed (specifications are regenerated from it)"
    specrun.quiet()
    a, b = inp["spec1"], inp["spec2"]
    def rebuild(x):
        if "cfg" in x:
            return specrun.search(x["cfg"])[1]
        if "dot" in x:
            return dot_spec(x["dot"], x["alphabet"], x["db"], x["seed"])
        return build_spec(x["avoid"], x["alphabet"], x["db"], x["seed"], x["reloaded"], x.get("prefix", ""))

    s1, s2 = rebuild(a), rebuild(b)
    specrun.quiet()
    out = {"problems": [], "pairs": 0, "bijections": 0, "lines": []}
    judge_pair(a, s1, b, s2, 6, out)
    want = case.get("signature")
    for sig, i2, d in out["problems"]:
        if want is None or sig == want:
            return {"signature": sig, "input": inp, "detail": d}
    return None
