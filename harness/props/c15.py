"""C15 — the class database is a stable bijection between classes and dense labels."""
import random
import sys

import common
from comb_spec_searcher import CombinatorialClass
from comb_spec_searcher.class_db import ClassDB

LEVEL_NOTE = (
    "label stability/injectivity/density, lookup, total membership and the emptiness cache are proven for the Lean "
    "state machine over all (truthful) op histories (run_inv, isEmpty_cached, labels_bijective, step_prefix, "
    "containsL_total, getLabel_idem, getClass_getLabel); ClassDB tied to it by random histories with and without compression"
)


class Interrupted(Exception):
    """the class's own emptiness check did not complete (a time limit, an interruption of the caller)"""


class K(CombinatorialClass):
    """A class identified by an integer; `empty` is its own answer to is_empty. No compression."""

    def __init__(self, ident, empty):
        self.ident, self.empty = ident, empty
        self.calls = 0

    interrupt = False

    def is_empty(self):
        self.calls += 1
        if self.interrupt:
            raise Interrupted
        return self.empty

    def __eq__(self, other):
        return isinstance(other, K) and self.ident == other.ident

    def __hash__(self):
        return hash(("K", self.ident))

    def __repr__(self):
        return f"K({self.ident})"

    def __str__(self):
        return repr(self)

    def to_jsonable(self):
        return {"ident": self.ident, "empty": self.empty}

    @classmethod
    def from_dict(cls, d):
        return cls(d["ident"], d["empty"])


class KB(K):
    """Same, with byte compression."""

    def to_bytes(self):
        return f"{self.ident}:{int(self.empty)}".encode()

    @classmethod
    def from_bytes(cls, b):
        i, e = b.decode().split(":")
        return cls(int(i), bool(int(e)))

    def __eq__(self, other):
        return isinstance(other, KB) and self.ident == other.ident

    def __hash__(self):
        return hash(("KB", self.ident))


class KBW(KB):
    """Byte compression and a weak (colliding) hash: unequal classes may share their hash."""

    def __eq__(self, other):
        return isinstance(other, KBW) and self.ident == other.ident

    def __hash__(self):
        return self.ident % 2


class KM(KB):
    """Byte compression for some classes only: `to_bytes` is not implemented for every third one (the database decides per class)."""

    def to_bytes(self):
        if self.ident % 3 == 2:
            raise NotImplementedError
        return super().to_bytes()

    def __eq__(self, other):
        return isinstance(other, KM) and self.ident == other.ident

    def __hash__(self):
        return hash(("KM", self.ident))


class KZ(KB):
    """Byte compression where the class's own bytes are already a zlib stream (a class that packs its representation itself):
    whatever the database stores must still come back as the class."""

    def to_bytes(self):
        import zlib

        return zlib.compress(super().to_bytes() * (1 + self.ident % 4))

    @classmethod
    def from_bytes(cls, b):
        import zlib

        i, e = zlib.decompress(b).decode().split(":")[:2]
        return cls(int(i), bool(int(e[0])))

    def __eq__(self, other):
        return isinstance(other, KZ) and self.ident == other.ident

    def __hash__(self):
        return hash(("KZ", self.ident))


def out_of(f):
    try:
        r = f()
    except KeyError:
        return "KeyError"
    except Exception as exc:  # anything else is not documented
        return f"EXC:{type(exc).__name__}"
    return r


def run_history(res, cls, empties, ops):
    db = ClassDB(cls)
    lines = [f"reset {','.join(map(str, sorted(empties))) if empties else '-'}"]
    outs = ["ok"]
    hist = {"compress": cls.__name__, "empties": sorted(empties), "ops": ops}
    first_label = {}
    order = []
    answered = set()  # classes whose emptiness the database has been told or has worked out
    for op in ops:
        kind = op[0]
        if kind == "L":
            x = op[1]
            r = out_of(lambda: db.get_label(cls(x, x in empties)))
            lines.append(f"L {x}")
            outs.append(f"label {r}" if isinstance(r, int) else r)
            # oracle: stable, dense, first-appearance order
            if isinstance(r, int) and not isinstance(r, bool):
                if x in first_label:
                    if first_label[x] != r:
                        res.fail("label-not-stable", hist, f"class {x}: {first_label[x]} then {r}")
                else:
                    if r != len(order):
                        res.fail("label-not-dense", hist, f"class {x} got label {r}, expected {len(order)}")
                    if r in first_label.values():
                        res.fail("label-shared", hist, f"label {r} given to two classes")
                    first_label[x] = r
                    order.append(x)
            else:
                res.fail("get_label-raises", hist, r)
        elif kind == "A":  # the public add: labels the class if it is new, answers nothing
            x = op[1]
            r = out_of(lambda: db.add(cls(x, x in empties)))
            lines.append(f"A {x}")
            outs.append("ok" if r is None else str(r))
            if r is not None:
                res.fail("add-raises", hist, str(r))
            if x not in first_label:
                first_label[x] = len(order)
                order.append(x)
            if len(db.comb_class_list) != len(order):
                res.fail("add-relabels-a-known-class", hist, f"{len(db.comb_class_list)} entries for {len(order)} classes after add(class {x})")
        elif kind == "G":
            l = op[1]
            r = out_of(lambda: db.get_class(l))
            lines.append(f"G {l}")
            if isinstance(r, K):
                outs.append(f"class {r.ident}")
                # out-of-range labels: the property claims nothing about get_class (correspondence only)
                if 0 <= l < len(order) and order[l] != r.ident:
                    res.fail("get_class-wrong", hist, f"get_class({l}) returned class {r.ident}; stored order {order}")
            else:
                outs.append(r)
                if 0 <= l < len(order):
                    res.fail("get_class-fails-on-known-label", hist, f"get_class({l}) -> {r}")
        elif kind == "CC":
            x = op[1]
            r = out_of(lambda: cls(x, x in empties) in db)
            lines.append(f"CC {x}")
            outs.append(str(r))
            if r is not (x in first_label):
                res.fail("membership-class-wrong", hist, f"class {x} in db -> {r}")
        elif kind == "CL":
            l = op[1]
            r = out_of(lambda: l in db)
            lines.append(f"CL {l}")
            outs.append(str(r))
            if r is not (0 <= l < len(order)):
                res.fail("membership-label-not-total", hist, f"{l} in db -> {r} with {len(order)} classes stored")
        elif kind == "E":
            x = op[1]
            c = cls(x, x in empties)
            r = out_of(lambda: db.is_empty(c))
            lines.append(f"E {x}")
            outs.append(str(r))
            if x in first_label and r is not (x in empties):
                res.fail("emptiness-wrong", hist, f"is_empty(class {x}) -> {r}, class says {x in empties}")
            if isinstance(r, bool):
                answered.add(x)
        elif kind == "EL":  # is_empty by (class,label) as the searcher calls it: same model op
            x = op[1]
            if x not in first_label:
                continue
            c = cls(x, x in empties)
            r = out_of(lambda: db.is_empty(c, first_label[x]))
            lines.append(f"E {x}")
            outs.append(str(r))
            if r is not (x in empties):
                res.fail("emptiness-wrong", hist, f"is_empty(class {x}, label) -> {r}, class says {x in empties}")
            answered.add(x)
        elif kind == "EX":  # an emptiness query whose check of the class is interrupted: nothing may be concluded from it
            x = op[1]
            if x not in first_label:
                continue
            c = cls(x, x in empties)
            c.interrupt = True
            r = out_of((lambda: db.is_empty(c, first_label[x])) if op[2] else (lambda: db.is_empty(c)))
            if x in answered:
                # answered from the cache, the class is not asked: an ordinary query for the model
                lines.append(f"E {x}")
                outs.append(str(r))
                if r is not (x in empties):
                    res.fail("emptiness-wrong", hist, f"is_empty(class {x}) -> {r} from the cache, class says {x in empties}")
            elif r != "EXC:Interrupted":
                res.fail("interrupted-emptiness-check-answered", hist, f"is_empty(class {x}) -> {r} although the class's check did not complete")
        elif kind == "S":
            x = op[1]
            b = x in empties  # truthful
            r = out_of(lambda: db.set_empty(cls(x, b), b))
            lines.append(f"S {x} {int(b)}")
            outs.append("ok" if r is None else r)
            if x not in first_label:
                first_label[x] = len(order)
                order.append(x)
            answered.add(x)
    return lines, outs


def rand_case(rnd):
    n = rnd.randint(1, 7)
    empties = {x for x in range(n) if rnd.random() < 0.4}
    ops = []
    for _ in range(rnd.randint(1, 40)):
        k = rnd.choice(["L", "L", "L", "A", "G", "CC", "CL", "E", "EL", "S", "EX"])
        if k in ("G", "CL"):
            ops.append((k, rnd.randint(-3, n + 3)))
        elif k == "EX":
            ops.append((k, rnd.randrange(n), rnd.random() < 0.5))
        else:
            ops.append((k, rnd.randrange(n)))
    return empties, ops


def searcher_worker(cfg):
    """(b) the database as the searcher drives it (symmetry, inferral, factories): after a real search every cached
    emptiness equals the class's own answer, labels are dense and looking a label up gives back the class"""
    import signal

    import speccheck
    import specrun

    signal.signal(signal.SIGALRM, speccheck._alarm)
    signal.alarm(40)
    out = {"cfg": cfg, "problems": [], "classes": 0, "cached": 0}
    # every class database created while this worker runs is audited at the end: also the ones of the searchers that
    # `expand_verified` sets up internally
    import comb_spec_searcher.class_db as cdbmod

    created = []
    orig_init = cdbmod.ClassDB.__init__

    def rec_init(self, *a, **k):
        orig_init(self, *a, **k)
        created.append(self)

    cdbmod.ClassDB.__init__ = rec_init
    try:
        specrun.quiet()
        root, pack, db = specrun.build(cfg)
        from comb_spec_searcher import CombinatorialSpecificationSearcher
        from comb_spec_searcher.exception import SpecificationNotFound

        if cfg["seed"] % 3 == 0 and not cfg.get("gram"):
            # union strategies built with non-default flags (not inferrable, still possibly empty)
            import upword
            from comb_spec_searcher import StrategyPack

            def flag(st_):
                return upword.Expand(st_.mode, inferrable=False) if type(st_) is upword.Expand else st_

            pack = StrategyPack(initial_strats=[flag(x) for x in pack.initial_strats], inferral_strats=list(pack.inferral_strats),
                                expansion_strats=[[flag(x) for x in ss] for ss in pack.expansion_strats], ver_strats=list(pack.ver_strats),
                                name=pack.name, symmetries=list(pack.symmetries), iterative=pack.iterative)
        s = CombinatorialSpecificationSearcher(root, pack, ruledb=db, expand_verified=cfg["expand_verified"])
        specrun.quiet()
        st = random.getstate()
        random.seed(cfg["seed"])
        try:
            for _ in range(4):
                if s.do_level():
                    break
        except SpecificationNotFound:
            pass
        except speccheck.Timeout:
            raise
        except Exception as exc:  # noqa: BLE001  (C04's matter)
            out["note"] = specrun.exc_info(exc)
        finally:
            random.setstate(st)
            specrun.quiet()
        if cfg["seed"] % 2 == 0:
            # carry on to a specification and expand its verified classes: the library then builds further searchers, each
            # with a class database of its own
            st = random.getstate()
            random.seed(cfg["seed"])
            try:
                s.auto_search(perc=cfg["perc"]).expand_verified()
            except speccheck.Timeout:
                raise
            except Exception:  # noqa: BLE001  (C01 / C19's matter)
                pass
            finally:
                random.setstate(st)
                specrun.quiet()
        seen = set()
        for cdb in [s.classdb] + created:
            if id(cdb) in seen:
                continue
            seen.add(id(cdb))
            n = len(cdb.empty_list)
            out["classes"] += n
            out["dbs"] = out.get("dbs", 0) + 1
            for label in range(n):
                c = cdb.get_class(label)
                if cdb.get_label(c) != label:
                    out["problems"].append(("label-not-stable", f"class {c!r} stored under {label} is now labelled {cdb.get_label(c)}"))
                cached = cdb.empty_list[label]
                if cached is not None:
                    out["cached"] += 1
                    if bool(cached) != bool(c.is_empty()):
                        out["problems"].append(("cached-emptiness-ne-class", f"label {label} {c!r}: cached {cached}, the class says {c.is_empty()}"))
            if len(cdb.empty_list) != n:
                out["problems"].append(("lookup-grows-the-database", f"{n} -> {len(cdb.empty_list)}"))
    except speccheck.Timeout:
        out["timeout"] = True
    finally:
        cdbmod.ClassDB.__init__ = orig_init
        signal.alarm(0)
    return out


def run(tier, seed, factor=1):
    res = common.Result("C15")
    res.rule = ("random histories (1-40 ops) of get_label/add/get_class/class-in/label-in/is_empty/set_empty over 1-7 classes "
                "(40% empty), labels probed in -3..k+3, each history run without compression, with byte compression, and with compression plus a colliding hash; "
                "non-trivial = >=3 ops touching >=2 classes; distinct by (compression, empties, ops); (b) the databases of real searchers (4 levels, "
                "symmetry/inferral/factory packs): cached emptiness vs the class, label stability")
    rnd = random.Random(seed * 31337 + 15)
    n = common.scale(tier, 2500, 40000) * factor
    text, metas = [], []
    for i in range(n):
        empties, ops = rand_case(rnd)
        for cls in (K, KB, KBW, KM, KZ):
            lines, outs = run_history(res, cls, empties, ops)
            res.case((cls.__name__, tuple(sorted(empties)), tuple(ops)),
                     nontrivial=len(ops) >= 3 and len({o[1] for o in ops if o[0] in ("L", "S", "A")}) >= 2)
            for o in ops:
                res.dist[f"op={o[0]}"] += 1
            text += lines
            metas.append((cls.__name__, empties, ops, outs))
    # (a') one long history per flavour: a few thousand distinct classes, then the early ones again (a database whose behaviour
    # depends on how much it already holds must still give every class its first label)
    big = 2300
    for cls in (K, KB):
        ops = [("L", x) for x in range(big)] + [("L", x) for x in (0, 1, 7, 341, 2047, 2048, big - 1)] + [("CC", 5), ("G", 5), ("G", big - 1)]
        lines, outs = run_history(res, cls, set(), ops)
        res.case((cls.__name__, "long", big), nontrivial=True)
        text += lines
        metas.append((cls.__name__, set(), ops, outs))
    # (b) through the searcher
    import speccheck
    import specrun

    crnd = random.Random(seed * 7919 + 15)
    cfgs = speccheck.make_configs(crnd, common.scale(tier, 60, 600) * factor)
    for c in cfgs[::2]:
        if len(c["alpha"]) == 2:
            c["symmetry"] = True
    for o in specrun.pool_map(searcher_worker, cfgs):
        res.case(("searcher", repr(sorted(o["cfg"].items()))), nontrivial=o["cached"] >= 2)
        res.dist["searcher-driven databases"] += 1
        res.dist["searcher: cached emptiness values compared"] += o["cached"]
        res.traces += 1
        for sig, d in o["problems"][:3]:
            res.fail(sig, o["cfg"], d)
    specrun.quiet()
    out = common.run_driver("C15", "\n".join(text) + "\n")
    assert len(out) == len(text), (len(out), len(text))
    pos = 0
    for name, empties, ops, outs in metas:
        res.traces += 1
        for j, o in enumerate(outs):
            m = out[pos + j].split(" | ")[0]
            if m != o:
                res.diff("ClassDB vs model", {"compress": name, "empties": sorted(empties), "ops": ops, "at": j - 1}, m, o)
                break
        pos += len(outs)
    return res


def search(tier, seed):
    return run(tier, seed + 1000, factor=3)


def replay(case):
    inp = case["input"]
    if "alpha" in inp:
        o = searcher_worker(inp)
        return {"signature": o["problems"][0][0], "input": inp, "detail": o["problems"][0][1]} if o["problems"] else None
    r = common.Result("C15")
    cls = {"K": K, "KB": KB, "KBW": KBW, "KM": KM, "KZ": KZ, True: KB, False: K}[inp["compress"]]
    run_history(r, cls, set(inp["empties"]), [tuple(o) for o in inp["ops"]])
    return r.failures[0] if r.failures else None
