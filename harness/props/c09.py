"""C09 — every rule form counts its parent correctly from its children, with parameters."""
import common
import rulecheck
import speccheck

LEVEL_NOTE = (
    "constructor models in Lean (union, complement via addMapped, product over comps, quotient with exact polynomial "
    "division); proven: complement_union (complement of a union gives the child back), addMapped/unionList/subList "
    "coefficient semantics, comps_complete/comps_sound; every rule form of the universe is evaluated three ways: "
    "Python get_terms on brute-force children, the Lean constructor model, brute-force truth of the parent"
)


def judge(res, o, lean):
    inp = {"rule": o["rule"], "form": o["form"], "mode": o.get("mode"), "desc": o.get("desc")}
    res.dist[f"form={o['form'].split('-')[0][:4]}{'-equiv' if 'equiv' in o['form'] else ''}"] += 1
    res.dist[f"constructor={o.get('constructor', '?')}"] += 1
    res.dist[f"mode={o.get('mode')!r}"] += 1
    res.dist[f"nparams={o.get('nparams')}"] += 1
    if "exc" in o:
        res.dist["exception " + o["exc"][:80]] += 1
        if "NotImplementedError" in o["exc"]:
            return  # the library declines this form (e.g. complement with duplicate parameters in a path)
        res.fail("rule-form-raises:" + o["exc"].split(" at ")[0] + "@" + o["exc"].split(" at ")[1].split(":")[0] if " at " in o["exc"] else "rule-form-raises", inp, o["exc"])
        return
    if "mutated" in o:
        res.fail("rule-form-modifies-the-terms-it-was-given", inp, o["mutated"])
    if o["py"] != o["truth"]:
        res.fail("rule-form-miscounts", inp, {"python": o["py"], "truth": o["truth"]})
    if lean is None:
        return
    _chk, _msh, status, model = speccheck.parse_lean(lean)
    mine = model.split(" ")[0][2:] if model.startswith("0:") else model
    if status != "ok" or mine != "|".join(o["py"]):
        res.diff("rule.get_terms vs Lean constructor model", inp, (status + " " + mine)[:500], "|".join(o["py"])[:500])


def run(tier, seed, factor=1):
    res = common.Result("C09")
    res.rule = ("U-pword classes (alphabets a/ab/abc, prefixes <=4, 1-3 patterns, 0-3 statistics incl. position-restricted and merged ones, "
                "six parameter modes, separator classes) x every applicable strategy (Expand, Peel, Reduce, Swap, Rot one-/two-way, "
                "SepUnion, SepSplit) x every derived form (plain, equivalence, reverse w.r.t. every non-empty child, equivalence of a "
                "reverse, equivalence paths of 2-3 steps); sizes 0..N; non-trivial = a form with >=1 child whose parent has objects; "
                "distinct by (rule, form)")
    N = common.scale(tier, 6, 8)
    outs = rulecheck.collect(seed * 31 + 9, common.scale(tier, 500, 6000) * factor, N)
    # unions whose children have equally many statistics but different parameter maps (every other child lists its statistics in
    # the opposite order): the same parameter tuple means different things on different children
    rulecheck.EXTRA = "altnames"
    try:
        outs += rulecheck.collect(seed * 43 + 5, common.scale(tier, 160, 2000) * factor, N)
    finally:
        rulecheck.EXTRA = None
    lines = [o["line"] for o in outs if "line" in o and "exc" not in o]
    lean = common.run_driver("Spec", "\n".join(lines) + "\n") if lines else []
    assert len(lean) == len(lines)
    k = 0
    for o in outs:
        res.case((o["rule"], o["form"]), nontrivial=any(o["truth"]))
        res.traces += 1
        if "line" in o and "exc" not in o:
            judge(res, o, lean[k])
            k += 1
        else:
            judge(res, o, None)
    return res


def search(tier, seed):
    return run(tier, seed + 1000, factor=2)


def replay(case):
    desc = case["input"].get("desc")
    if not desc:
        return "not replayable from the file (an equivalence path built from random choices): re-run the check with the recorded seed"
    o = rulecheck.replay_desc(desc)
    if o is None:
        return None
    r = common.Result("C09")
    lean = common.run_driver("Spec", o["line"] + "\n")[0] if "line" in o and "exc" not in o else None
    judge(r, o, lean)
    return r.failures[0] if r.failures else None
