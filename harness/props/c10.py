"""C10 — declared shifts bound what a rule actually reads when counting."""
import common
import rulecheck
import speccheck

LEVEL_NOTE = (
    "product_local and quotient_local proven (a part of a bounded composition is at most n minus the other parts' minimum "
    "sizes; in the quotient's compositions of n + shift_idx child j is at most n - (shift_j - shift_idx)); reverse shift "
    "arithmetic proven; every size a rule form requests from each child and from its own class is logged and compared "
    "with n - shifts()[i]; shifts() itself is compared with the Lean model of the shifts"
)


def judge(res, o, lean):
    inp = {"rule": o["rule"], "form": o["form"], "mode": o.get("mode"), "desc": o.get("desc")}
    res.dist[f"form={o['form'].split('-')[0][:4]}{'-equiv' if 'equiv' in o['form'] else ''}"] += 1
    res.dist[f"constructor={o.get('constructor', '?')}"] += 1
    if "shifts" not in o:
        return
    sh = o["shifts"]
    if any(s != 0 for s in sh):
        res.dist["rule with a non-zero shift"] += 1
    for n, reads in enumerate(o["reads"]):
        for who, m in reads:
            if who == "own":
                if m >= n:
                    res.fail("reads-own-class-at-or-above-n", inp, {"n": n, "read": m})
                    return
            elif m > n - sh[who]:
                res.fail("reads-child-beyond-declared-shift", inp, {"n": n, "child": who, "read": m, "shifts": sh})
                return
    if lean is not None:
        ll = speccheck.parse_lean(lean)
        _chk, msh, _status, _model = ll
        if not ll.wf:
            res.diff("rule form does not meet SkelWF (hypothesis of skel_local)", inp, "wf=0", "")
        mine = ",".join(map(str, sh))
        if msh.get(0) != mine:
            res.diff("rule.shifts() vs Lean model shifts", inp, msh.get(0), mine)


def run(tier, seed, factor=1):
    res = common.Result("C10")
    res.rule = ("the rule forms of C09's universe (every strategy x every derived form incl. reverse rules of products with non-atom "
                "siblings); for n <= N every size requested from every child provider and from the rule's own class is logged; "
                "non-trivial = a form that reads at least one child; distinct by (rule, form)")
    N = common.scale(tier, 7, 9)
    outs = rulecheck.collect(seed * 37 + 10, common.scale(tier, 500, 6000) * factor, N)
    # one strategy class instantiated with several settings, applied to the same classes in one process (what a rule declares
    # must depend on the strategy's settings, not only on its type)
    rulecheck.EXTRA = "peelcut"
    try:
        outs += rulecheck.collect(seed * 41 + 3, common.scale(tier, 160, 2000) * factor, N)
    finally:
        rulecheck.EXTRA = None
    # providers that hand out explicit zero entries where a class has no objects (what is read must not depend on that)
    rulecheck.EXTRA = "zeros"
    try:
        outs += rulecheck.collect(seed * 47 + 7, common.scale(tier, 160, 2000) * factor, N)
    finally:
        rulecheck.EXTRA = None
    lines = [o["line"] for o in outs if "line" in o and "exc" not in o]
    lean = common.run_driver("Spec", "\n".join(lines) + "\n") if lines else []
    k = 0
    for o in outs:
        res.case((o["rule"], o["form"]), nontrivial=any(o["reads"]))
        res.traces += 1
        if "line" in o and "exc" not in o:
            judge(res, o, lean[k])
            k += 1
        else:
            judge(res, o, None)
    return res


def search(tier, seed):
    return run(tier, seed + 1000, factor=2)


def replay(case):
    desc = case["input"].get("desc")
    if not desc:
        return "not replayable from the file (an equivalence path built from random choices): re-run the check with the recorded seed"
    o = rulecheck.replay_desc(desc)
    if o is None:
        return None
    r = common.Result("C10")
    lean = common.run_driver("Spec", o["line"] + "\n")[0] if "line" in o and "exc" not in o else None
    judge(r, o, lean)
    return r.failures[0] if r.failures else None
