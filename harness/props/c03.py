"""C03 — forest productivity detection equals the least fixed point, in any insert order."""
import random

import common
import uint
from comb_spec_searcher.rule_db.forest import TableMethod
from comb_spec_searcher.typing import ForestRuleKey, RuleBucket

LEVEL_NOTE = (
    "lfpRef proven to compute the least fixed point (lfpRef_correct/some/perm/mono, pumps_iff); "
    "TableMethod (Python) compared with lfpRef and with the line-by-line Lean model after every insertion"
)


def py_values(n, rules, order=None):
    tb = TableMethod()
    outs = []
    seq = rules if order is None else [rules[i] for i in order]
    for p, cs, ss in seq:
        # the bucket is a label of the key: which terms are computable does not depend on it (derived from the key, so that a
        # history is the same however it is ordered)
        bucket = (RuleBucket.VERIFICATION if not cs else
                  [RuleBucket.NORMAL, RuleBucket.REVERSE, RuleBucket.EQUIV, RuleBucket.NORMAL, RuleBucket.REVERSE][(p * 7 + len(cs) * 3 + sum(abs(x) for x in ss)) % 5])
        tb.add_rule_key(ForestRuleKey(p, cs, ss, bucket))
        f = tb.function
        vals = ["inf" if (c in f and f[c] is None) else str(f.get(c, 0)) for c in range(n)]
        # is_pumping and pumping_subuniverse must be consistent with the function
        for c in range(n):
            assert tb.is_pumping(c) == (vals[c] == "inf")
        outs.append(" ".join(vals))
    sub = sorted((k.parent, k.children, k.shifts) for k in tb.pumping_subuniverse())
    return outs, sub


def le(a, b):
    if b == "inf":
        return True
    if a == "inf":
        return False
    return int(a) <= int(b)


def check_batch(res, cases, perms, tag):
    text = "\n".join(uint.fmt_history(n, rules) for n, rules in cases) + "\n"
    lines = common.run_driver("C03", text)
    assert len(lines) == len(cases), (len(lines), len(cases))
    for (n, rules), line in zip(cases, lines):
        canon = (n, tuple(rules))
        res.dist[f"{tag}:classes={n}"] += 1
        res.dist[f"{tag}:rules={min(len(rules), 15)}"] += 1
        if any(s < 0 for _, _, ss in rules for s in ss):
            res.dist[f"{tag}:has_negative_shift"] += 1
        if " | rest=" in line:
            line, _, rest = line.rpartition(" | rest=")
            # the hypothesis of the proven tm_eq_lfp (every insertion came to rest within the fuel), evaluated for this history
            res.dist[f"{tag}:hypothesis of tm_eq_lfp holds (every insertion came to rest)" if rest == "1" else
                     f"{tag}:an insertion of the model did not come to rest within the fuel (tm_eq_lfp does not apply)"] += 1
        m, l = line[2:].split(" | L ")
        model = m.split(";")
        ref = l.split(";")
        try:
            py, sub = py_values(n, rules)
        except Exception as exc:  # an exception from the table method is itself a failure
            res.case(canon)
            res.fail("tablemethod-raises", {"n": n, "rules": rules}, repr(exc))
            continue
        nontrivial = any(v != "0" for v in py[-1].split()) and len(rules) >= 2
        res.case(canon, nontrivial)
        res.traces += 1
        if "inf" in py[-1]:
            res.dist[f"{tag}:some_class_pumps"] += 1
        for i in range(len(rules)):
            if py[i] != ref[i]:
                res.fail("tablemethod-ne-lfp", {"n": n, "rules": rules[: i + 1]},
                         {"python": py[i], "lfpRef": ref[i], "prefix": i + 1})
                break
        if py != model:
            res.diff("TableMethod python vs Lean model", {"n": n, "rules": rules}, model, py)
        if model != ref:
            res.diff("Lean TableMethod model vs lfpRef (inside Lean)", {"n": n, "rules": rules}, ref, model)
        # pumping sub-universe consistent with the reference
        inf = {c for c, v in enumerate(ref[-1].split()) if v == "inf"}
        want = sorted((p, cs, ss) for p, cs, ss in rules if p in inf and inf.issuperset(cs))
        if sub != want:
            res.fail("pumping-subuniverse-wrong", {"n": n, "rules": rules}, {"python": sub, "expected": want})
        # monotone along prefixes
        for i in range(1, len(py)):
            if not all(le(a, b) for a, b in zip(py[i - 1].split(), py[i].split())):
                res.fail("not-monotone", {"n": n, "rules": rules[: i + 1]}, {"before": py[i - 1], "after": py[i]})
                break
        # order / repetition independence (Python against itself; lfpRef_perm says any difference is a violation)
        rnd = random.Random(hash(canon) & 0xFFFFFF)
        for _ in range(perms):
            order = list(range(len(rules)))
            rnd.shuffle(order)
            if rnd.random() < 0.5:
                order += [rnd.randrange(len(rules)) for _ in range(rnd.randint(1, 3))]
                rnd.shuffle(order)
            try:
                py2, _ = py_values(n, rules, order)
            except Exception as exc:
                res.fail("tablemethod-raises", {"n": n, "rules": [rules[i] for i in order]}, repr(exc))
                break
            if py2[-1] != py[-1]:
                res.fail("order-dependent", {"n": n, "rules": rules, "order": order},
                         {"original": py[-1], "permuted": py2[-1]})
                break


def run(tier, seed, factor=1):
    res = common.Result("C03")
    res.rule = ("random U-int rule histories (1-8 classes, 1-14 rules, arity 0-3, repeated children, shifts -3..3) "
                "+ the universes of tests/test_forest.py + (thorough) every rule list over <=2 classes, <=3 rules, "
                "arity<=2, shifts in {-1,0,1}; non-trivial = at least 2 rules and some class with a computable term; "
                "distinct = by canonical (n, rule list)")
    rnd = random.Random(seed * 7919 + 3)
    nh = common.scale(tier, 3000, 60000) * factor
    cases = [uint.rand_history(rnd) for _ in range(nh)]
    # some bigger ones
    cases += [uint.rand_history(rnd, max_classes=4, max_rules=10, max_shift=5) for _ in range(nh // 3)]
    cases += [uint.rand_history(rnd, max_classes=20, max_rules=40, max_shift=3) for _ in range(nh // 20)]
    cases += [uint.layered_history(rnd) for _ in range(nh)]
    cases += uint.forest_test_universes()
    check_batch(res, cases, common.scale(tier, 2, 6), "rand")
    if tier == "thorough":
        ex = list(uint.exhaustive_small(2, 2)) + [c for i, c in enumerate(uint.exhaustive_small(2, 3)) if i % 7 == seed % 7]
        check_batch(res, ex, 1, "small")
        res.notes.append(f"small scope: all {len(list(uint.exhaustive_small(2, 2)))} rule lists with <=2 rules over <=2 classes; 1/7 of the 3-rule lists")
    return res


def search(tier, seed):
    return run(tier, seed + 1000, factor=3)


def replay(case):
    inp = case["input"]
    n, rules = inp["n"], [(p, tuple(cs), tuple(ss)) for p, cs, ss in inp["rules"]]
    r = common.Result("C03")
    check_batch(r, [(n, rules)], 3, "replay")
    return r.failures[0] if r.failures else None
