"""C19 — expanding verified classes preserves the enumeration and finishes the job."""
import json
import random

import common
import speccheck
import specrun
import upword
from comb_spec_searcher.exception import InvalidOperationError, SpecificationNotFound
from comb_spec_searcher.strategies.rule import VerificationRule

LEVEL_NOTE = (
    "comp_replace_verified proven (replacing the leaf rule of a productive verified class by any rule set that makes it "
    "productive keeps every class productive) with Comp.mono_rules; the expanded specification goes through the proven "
    "checkSpec and the Lean evaluator like any specification (C01/C02); the two heap facts (no shared rule object, original "
    "untouched) are observed directly on the Python objects"
)


def snapshot(spec, N):
    """everything observable about a specification: its JSON, the terms of every rule, the rule objects' ids"""
    return (json.dumps(spec.to_jsonable(), sort_keys=True, default=repr),
            {repr(c): [specrun.st(r.get_terms(n)) for n in range(N + 1)] for c, r in spec.rules_dict.items()})


def worker(args):
    import signal

    signal.signal(signal.SIGALRM, speccheck._alarm)
    signal.alarm(60)
    try:
        return _worker(args)
    except speccheck.Timeout:
        return {"cfg": args[0], "status": "timeout", "problems": []}
    finally:
        signal.alarm(0)


def _worker(args):
    cfg, N = args
    out = {"cfg": cfg, "problems": [], "nver": 0}
    specrun.quiet()
    try:
        root, spec, _ = specrun.search(cfg)
    except SpecificationNotFound:
        out["status"] = "nospec"
        return out
    except speccheck.Timeout:
        raise
    except Exception as exc:  # noqa: BLE001
        out["status"] = "exc"
        out["exc"] = specrun.exc_info(exc)
        return out
    packs = []
    for c, r in spec.rules_dict.items():
        if isinstance(r, VerificationRule):
            try:
                r.pack()
                packs.append(c)
            except InvalidOperationError:
                pass
    out["nver"] = len(packs)
    if not packs:
        out["status"] = "nothing-to-expand"
        return out
    out["status"] = "expanded"
    before = snapshot(spec, N)
    ids_before = {id(r) for r in spec.rules_dict.values()}
    try:
        new = spec.expand_verified()
    except speccheck.Timeout:
        raise
    except Exception as exc:  # noqa: BLE001
        specrun.quiet()
        out["problems"].append(("expand_verified-raises", specrun.exc_info(exc)))
        return out
    specrun.quiet()
    try:
        # same start class, valid, productive, counts right
        if new.root != root:
            out["problems"].append(("root-changed", repr(new.root)))
        idx, line = specrun.spec_line(new, N, N + 4)
        out["line"] = line
        out["py"] = specrun.py_terms_line(new, idx, N)
        out["truth"] = specrun.truth_line(idx, N)
        out["genuine"] = [f"{r.comb_class!r}: {g}" for r in new for g in [specrun.genuine(r)] if g]
        # nothing expandable left
        left = []
        for c, r in new.rules_dict.items():
            if isinstance(r, VerificationRule):
                try:
                    r.pack()
                    left.append(repr(c))
                except InvalidOperationError:
                    pass
        if left:
            out["problems"].append(("verified-class-with-pack-left", str(left)))
        # heap facts
        shared = [repr(r.comb_class) for r in new.rules_dict.values() if id(r) in ids_before]
        if shared:
            out["problems"].append(("rule-object-shared-with-original", str(shared[:3])))
        after = snapshot(spec, N)
        if after[0] != before[0]:
            out["problems"].append(("original-specification-changed", "to_jsonable differs after expand_verified"))
        if after[1] != before[1]:
            out["problems"].append(("original-specification-counts-changed", "terms of the original's rules differ after expand_verified"))
        if [specrun.st(spec.get_terms(n)) for n in range(N + 1)] != [specrun.st(upword.true_terms(root, n)) for n in range(N + 1)]:
            out["problems"].append(("original-no-longer-counts", ""))
    except speccheck.Timeout:
        raise
    except Exception as exc:  # noqa: BLE001
        out["problems"].append(("expanded-specification-unusable", specrun.exc_info(exc)))
    return out


def configs(rnd, n):
    out = []
    for i in range(n):
        cfg = specrun.rand_config(rnd, "prefver")
        if not cfg["prefver"]:
            cfg["prefver"] = ["a"]
        if i % 5 == 4:  # the verified class needs a reverse rule after expansion: its pack withholds the expansion
            cfg["mode"] = ""
        cfg["expand_verified"] = False
        cfg["iterative"] = False
        out.append(cfg)
    # U-gram: several verified classes each offering a pack that needs a reverse rule (ordinary / an equivalence) or none
    for i in range(max(4, n // 8)):
        k = rnd.choice([1, 2, 2, 3])
        out.append(dict(gram=[rnd.choice(["Y", "Y", "E", "E", "F", "S", "Q", "Q", "P", "K", "K", "R", "Z", "Z"]) for _ in range(k)], db=rnd.choice(["RuleDB", "RuleDBForgetStrategy", "RuleDBForest"]),
                        seed=rnd.randrange(10**6), perc=rnd.choice([100, 20, 1]), smallest=False, expand_verified=False))
    # U-gram variant W: expanding the verified class needs a reverse rule and gives a class of the original specification
    # another rule than it had there
    wrnd = random.Random(n * 7919 + 19)
    for i in range(max(3, n // 16)):
        out.append(dict(gram=["W"] + [wrnd.choice(["Y", "F", "P", "W"]) for _ in range(wrnd.choice([0, 1, 1]))],
                        db=wrnd.choice(["RuleDB", "RuleDBForgetStrategy", "RuleDBForest"]), seed=wrnd.randrange(10**6), perc=wrnd.choice([100, 20, 1]),
                        smallest=False, expand_verified=False))
    return out


def run(tier, seed, factor=1):
    res = common.Result("C19")
    res.rule = ("real searches with a verification strategy that verifies 1-3 non-atom classes by prefix and offers a pack "
                "(root itself, interior classes, classes inside equivalence paths; inferral, symmetry, factories, three databases), then "
                "expand_verified(); non-trivial = at least one class was expanded; distinct by config")
    rnd = random.Random(seed * 1000003 + 19)
    N = common.scale(tier, 6, 8)
    outs = specrun.pool_map(worker, [(c, N) for c in configs(rnd, common.scale(tier, 200, 2500) * factor)])
    specrun.quiet()
    lines = [o["line"] for o in outs if "line" in o]
    lean = common.run_driver("Spec", "\n".join(lines) + "\n") if lines else []
    k = 0
    for o in outs:
        cfg = o["cfg"]
        res.case(("cfg", repr(sorted(cfg.items()))), nontrivial=o.get("nver", 0) >= 1)
        res.dist["status:" + o["status"]] += 1
        res.dist[cfg["db"]] += 1
        res.dist[f"verified classes with a pack={o.get('nver', 0)}"] += 1
        if o["status"] == "exc":
            res.dist["search exception: " + o["exc"][:80]] += 1
        for sig, detail in o["problems"]:
            res.fail(sig, cfg, detail)
        if "line" in o:
            res.traces += 1
            chk, msh, status, model = speccheck.parse_lean(lean[k])
            k += 1
            if not chk:
                res.fail("expanded-spec-not-closed-or-not-productive", cfg, o["line"][:500])
            for g in o["genuine"]:
                res.fail("expanded-spec-rule-not-genuine", cfg, g)
            if o["py"] != o["truth"]:
                res.fail("expanded-spec-miscounts", cfg, {"python": o["py"][:300], "truth": o["truth"][:300]})
            if status != "ok" or model != o["py"]:
                res.diff("expanded specification: get_terms vs Lean evalSpec", cfg, (status + " " + model)[:300], o["py"][:300])
    return res


def search(tier, seed):
    return run(tier, seed + 1000, factor=2)


def replay(case):
    o = worker((case["input"], 6))
    if o["problems"]:
        return {"signature": o["problems"][0][0], "input": case["input"], "detail": o["problems"][0][1]}
    return None
