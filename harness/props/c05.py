"""C05 — pruning-based detection and proof-tree search are exact."""
import copy
import random
import types
from collections import defaultdict

import common
from comb_spec_searcher.rule_db import RuleDB
from comb_spec_searcher.strategies.rule import VerificationRule
from comb_spec_searcher import tree_searcher as ts

LEVEL_NOTE = (
    "prune = greatest self-supporting subset (prune_gfp) and iterative prune = bottom-up derivability with the root "
    "pre-verified (iterPrune_exact, iterPrune_sound) proven; equivalence classes by the proven sccB; tree checker proven "
    "(checkTree_sound); binary search proven minimal for a sound and complete bounded finder (bsearch_min); completeness of "
    "the bounded DFS generator is not proven: minimality is decided per instance against the Lean model of the unbounded generator"
)


# ---------------------------------------------------------------- a RuleDB fed with synthetic events
class FakeRule:
    possibly_empty = False

    def __init__(self, children, two_way):
        self.children = children
        self._two = two_way
        self.strategy = ("S", len(children), two_way)

    def is_two_way(self):
        return self._two


class FakeVer(VerificationRule):
    possibly_empty = False

    strategy = property(lambda self: ("V",))
    children = property(lambda self: ())

    def __init__(self):  # pylint: disable=super-init-not-called
        pass

    def is_two_way(self):
        return False


def make_db(root, iterative, cls=RuleDB):
    db = cls()
    searcher = types.SimpleNamespace(
        start_label=root, strategy_pack=types.SimpleNamespace(iterative=iterative), classdb=None, classqueue=None
    )
    db.link_searcher(searcher)
    return db


def rand_events(rnd):
    if rnd.random() < 0.25:
        # dense one-way unary rules on few labels (strongly connected components that are not simple cycles), one rule
        # leading into them and one out, queried only at the end
        n = rnd.randint(3, 5)
        evs = []
        pairs = [(a, b) for a in range(1, n) for b in range(1, n) if a != b]
        rnd.shuffle(pairs)
        for a, b in pairs[: rnd.randint(min(3, len(pairs)), min(7, len(pairs)))]:
            evs.append((a, (b,), 1))
        x = rnd.randrange(1, n)
        evs.insert(rnd.randrange(len(evs) + 1), (0, (x,), 1))
        evs.insert(rnd.randrange(len(evs) + 1), (rnd.randrange(1, n), (0,), 1))
        return n, 0, evs
    n = rnd.randint(2, 8)
    evs = []
    for _ in range(rnd.randint(1, 16)):
        s = rnd.randrange(n)
        k = rnd.choice([0, 1, 1, 1, 2, 2, 3])
        ends = tuple(sorted(rnd.randrange(n) for _ in range(k)))
        kind = 0
        if k == 1:
            kind = rnd.choice([1, 2, 2])
        evs.append((s, ends, kind))
    return n, rnd.randrange(n), evs


def feed(db, ev):
    s, ends, kind = ev
    if not ends:
        db.add(s, ends, FakeVer())
    else:
        db.add(s, ends, FakeRule(ends, kind == 2))


def fmt_evs(evs):
    return ";".join(f"{s}|{','.join(map(str, e))}|{k}" for s, e, k in evs) or "-"


def db_part(res, tier, rnd, count):
    lines, metas = [], []
    for _ in range(count):
        n, root, evs = rand_events(rnd)
        iterative = rnd.random() < 0.5
        query_every = rnd.random() < 0.5  # exercises the pruned-dict cache invalidation
        db = make_db(root, iterative)
        hist = {"n": n, "root": root, "iterative": iterative, "events": evs, "query_after_every_add": query_every}
        res.case(("db", n, root, iterative, tuple(evs), query_every), nontrivial=len(evs) >= 3)
        res.dist["db:iterative" if iterative else "db:recursive"] += 1
        try:
            for i, ev in enumerate(evs):
                feed(db, ev)
                if query_every or i == len(evs) - 1:
                    has = db.has_specification()
                    surv = sorted({min(db.equivdb.equivalent_set(k)) for k in db.pruned_dict})
                    lines.append(f"db {n} {root} {int(iterative)} {fmt_evs(evs[: i + 1])}")
                    metas.append((hist, i + 1, f"has={int(has)} surv={surv}"))
                    if db.equivdb[root] != root:
                        res.dist["db:query with root label != its representative"] += 1
                    # the trees the database's own finders return, against the recorded rules up to equivalence
                    if has and i == len(evs) - 1:
                        st = random.getstate()
                        random.seed(rnd.random())
                        try:
                            nodes = [db._get_iterative_node()] if iterative else [db._get_smallish_node(0.0), db._get_smallest_node(0.0)]
                            for node in nodes:
                                flat = ";".join(
                                    f"{min(db.equivdb.equivalent_set(v.label))}:{','.join(map(str, sorted(min(db.equivdb.equivalent_set(c.label)) for c in v.children)))}"
                                    for v in node.nodes())
                                lines.append(f"dbt {n} {fmt_evs(evs)} {flat}")
                                metas.append((hist, i + 1, "tree-ok"))
                        finally:
                            random.setstate(st)
        except Exception as exc:
            res.fail("ruledb-raises", hist, repr(exc))
    out = common.run_driver("C05", "\n".join(lines) + "\n")
    assert len(out) == len(lines)
    reported = set()
    for (hist, k, py), ref in zip(metas, out):
        res.traces += 1
        if "has=1" in ref:
            res.dist["db:specification exists"] += 1
        if py == "tree-ok":
            res.dist["db:trees through the database's finders"] += 1
            if ref != "tree-ok" and id(hist) not in reported:
                reported.add(id(hist))
                res.fail("tree-from-database-uses-unrecorded-rule", hist, {"checker": ref})
            continue
        if py != ref and id(hist) not in reported:
            reported.add(id(hist))
            sig = "has_specification-wrong" if py.split()[0] != ref.split()[0] else "verified-set-wrong"
            if hist["iterative"]:
                sig = "iterative-" + sig
            res.fail(sig, dict(hist, events=hist["events"][:k]), {"python": py, "reference(sccB+prune/iterPrune)": ref})


# ---------------------------------------------------------------- rule dictionaries and the finders
def rand_rdict(rnd, small=False):
    n = rnd.randint(2, 5 if small else 8)
    rd = defaultdict(set)
    for _ in range(rnd.randint(1, 8 if small else 16)):
        k = rnd.choice([0, 0, 1, 2, 2, 3]) if not small else rnd.choice([0, 0, 1, 2])
        rd[rnd.randrange(n)].add(tuple(sorted(rnd.randrange(n) for _ in range(k))))
    return n, rd


def fmt_rd(rd):
    return ";".join(f"{p}:{','.join(map(str, cs))}" for p in sorted(rd) for cs in sorted(rd[p])) or "-"


def flatten(node):
    return ";".join(f"{v.label}:{','.join(map(str, sorted(c.label for c in v.children)))}" for v in node.nodes())


def parse_rd(text):
    rd = defaultdict(set)
    if text and text != "-":
        for part in text.split(";"):
            p, cs = part.split(":")
            rd[int(p)].add(tuple(int(c) for c in cs.split(",")) if cs else ())
    return rd


def rd_part(res, tier, rnd, count, explicit=None):
    lines, metas = [], []

    def ask(line, expect, what, hist, oracle):
        lines.append(line)
        metas.append((expect, what, hist, oracle))

    for idx in range(count if explicit is None else len(explicit)):
        small = idx % 2 == 0
        if explicit is None:
            n, rd = rand_rdict(rnd, small)
        else:
            rd = explicit[idx]
            small = len(rd) <= 5 and sum(len(v) for v in rd.values()) <= 8
            n = max([0] + [x for k, v in rd.items() for x in (k,) + tuple(y for t in v for y in t)]) + 1
        hist = {"rules": fmt_rd(rd)}
        res.case(("rd", fmt_rd(rd)), nontrivial=sum(len(v) for v in rd.values()) >= 3)
        # (a) prune is the greatest fixed point
        pr = copy.deepcopy(rd)
        ts.prune(pr)
        ask(f"rd {fmt_rd(rd)}", "prune " + (fmt_rd(pr) if pr else ""), "prune", hist, "pruned-dict-not-gfp")
        # (b) iterative prune
        root = rnd.randrange(n)
        ip = ts.iterative_prune(copy.deepcopy(rd), root=root)
        ask(f"ip {root}", "iprune " + (fmt_rd(ip) if ip else ""), "iterative_prune", dict(hist, root=root), "iterative-prune-not-lfp")
        if root in ip:
            res.dist["rd:iteratively derivable root"] += 1
            t = ts.iterative_proof_tree_finder(ip, root)
            lines.append(f"rd {fmt_rd(ip)}"); metas.append((None, None, None, None))
            ask(f"tree {root} {flatten(t)}", "tree-ok", "iterative_proof_tree_finder", dict(hist, root=root, tree=str(t)), "tree-invalid")
        # (c) every finder on the pruned dict
        if not pr:
            continue
        res.dist["rd:non-empty pruned dict"] += 1
        lines.append(f"rd {fmt_rd(pr)}"); metas.append((None, None, None, None))
        for r in sorted(pr):
            trees = []
            rs = random.Random(rnd.random())
            st = random.getstate()
            random.setstate(rs.getstate())
            try:
                for _ in range(common.scale(tier, 3, 8)):
                    trees.append(("random_proof_tree", ts.random_proof_tree(pr, r)))
                trees.append(("smallish_random_proof_tree", ts.smallish_random_proof_tree(pr, r, 0.0)))
                _seen, t = ts.proof_tree_dfs(pr, r)
                trees.append(("proof_tree_dfs", t))
            finally:
                random.setstate(st)
            for k, t in enumerate(ts.proof_tree_generator_dfs(pr, r)):
                trees.append(("proof_tree_generator_dfs", t))
                if k >= 5:
                    break
            # the breadth-first generator can take exponentially long before its first tree: a time budget per call
            import signal

            import speccheck

            signal.signal(signal.SIGALRM, speccheck._alarm)
            signal.setitimer(signal.ITIMER_REAL, 2.0)
            try:
                for k, t in enumerate(ts.proof_tree_generator_bfs(pr, r)):
                    trees.append(("proof_tree_generator_bfs", t))
                    if k >= 3:
                        break
            except speccheck.Timeout:
                res.dist["rd:bfs generator over its time budget (skipped)"] += 1
            finally:
                signal.setitimer(signal.ITIMER_REAL, 0)
            for name, t in trees:
                ask(f"tree {r} {flatten(t)}", "tree-ok", name, dict(hist, root=r, tree=str(t)), "tree-invalid")
            # (d) smallest, through the real RuleDB method with the pruned dict injected
            if small:
                # the bounded search starts from a random tree: several random seeds (its size decides which sizes are probed)
                for _ in range(common.scale(tier, 5, 10)):
                    db = make_db(r, False)
                    db._pruned_dict = pr
                    db.equivdb[r]
                    sd = rnd.random()
                    st = random.getstate()
                    random.seed(sd)
                    try:
                        node = db._get_smallest_node(0.0)
                    finally:
                        random.setstate(st)
                    ask(f"tree {r} {flatten(node)}", "tree-ok", "smallest", dict(hist, root=r, tree=str(node)), "tree-invalid")
                    ask(f"min {r}", f"min {len(node)}", "smallest-size", dict(hist, root=r, tree=str(node), random_seed=sd), "smallest-not-minimal")
                sizes = [len(t) for _, t in zip(range(200), ts.proof_tree_generator_dfs(pr, r))]
                if len(sizes) < 200:
                    ask(f"sizes {r}", f"sizes {sizes}", "dfs generator (unbounded) sizes", dict(hist, root=r), None)
                # bounded generator vs its Lean model (dfsTreeB, proven to be the unbounded model filtered by size <= maximum)
                for m in range(0, len(node) + 2):
                    bs = []
                    for _, t in zip(range(200), ts.proof_tree_generator_dfs(pr, r, maximum=m)):
                        bs.append(len(t))
                        if len(t) > m:
                            res.fail("bounded-dfs-yields-too-large", dict(hist, root=r, maximum=m), str(t))
                    if len(bs) < 200 and len(sizes) < 200:
                        ask(f"bsizes {r} {m}", f"bsizes {bs}", "dfs generator (bounded) sizes", dict(hist, root=r, maximum=m), None)
                        if bs != [x for x in sizes if x <= m]:
                            res.fail("bounded-dfs-not-the-filtered-unbounded", dict(hist, root=r, maximum=m), {"bounded": bs, "unbounded": sizes})
                # the binary search of _get_smallest_node in the model (smallest_is_min), from the size of the last tree found
                if len(sizes) < 200:
                    ask(f"bsearch {r} {sizes[0]}", f"bsearch {min(sizes)}", "binary search over the bounded model", dict(hist, root=r), None)
    out = common.run_driver("C05", "\n".join(lines) + "\n")
    assert len(out) == len(lines), (len(out), len(lines))
    for (expect, what, hist, oracle), got in zip(metas, out):
        if expect is None:
            continue
        res.traces += 1
        res.dist[f"rd:{what}"] += 1
        if got.strip() != expect.strip():
            if oracle is None:
                res.diff(what, hist, got, expect)
            else:
                res.fail(oracle + ":" + what, hist, {"python": expect, "reference": got})


def run(tier, seed, factor=1):
    res = common.Result("C05")
    res.rule = ("(i) random event streams (2-8 labels, 1-16 rules: verification, unary one-/two-way, n-ary) fed to the real RuleDB, "
                "recursive and iterative, has_specification/verified classes queried after every add or only at the end, vs the proven "
                "references; (ii) random rule dictionaries (<=8 labels) through prune, iterative_prune and every finder (random x3-8 seeds, "
                "smallish, dfs/bfs generators, iterative, smallest via RuleDB._get_smallest_node), every tree through the proven checker, "
                "smallest vs the minimum over the unbounded generator model; non-trivial = >=3 rules; distinct by canonical input")
    rnd = random.Random(seed * 9973 + 5)
    db_part(res, tier, rnd, common.scale(tier, 1500, 20000) * factor)
    rd_part(res, tier, rnd, common.scale(tier, 400, 5000) * factor)
    return res


def search(tier, seed):
    return run(tier, seed + 1000, factor=3)


def replay(case):
    inp = case["input"]
    r = common.Result("C05")
    if "events" in inp:
        evs = [(s, tuple(e), k) for s, e, k in inp["events"]]
        db = make_db(inp["root"], inp["iterative"])
        for ev in evs:
            feed(db, ev)
            if inp.get("query_after_every_add"):
                db.has_specification()
        has = db.has_specification()
        surv = sorted({min(db.equivdb.equivalent_set(k)) for k in db.pruned_dict})
        out = common.run_driver("C05", f"db {inp['n']} {inp['root']} {int(inp['iterative'])} {fmt_evs(evs)}\n")
        py = f"has={int(has)} surv={surv}"
        if py != out[0]:
            sig = "has_specification-wrong" if py.split()[0] != out[0].split()[0] else "verified-set-wrong"
            return {"signature": ("iterative-" if inp["iterative"] else "") + sig, "input": inp, "detail": {"python": py, "reference": out[0]}}
        return None
    rd_part(r, "quick", random.Random(0), 0, explicit=[parse_rd(inp["rules"])])
    want = case.get("signature")
    for f in r.failures:
        if want is None or f["signature"] == want:
            return f
    return r.failures[0] if r.failures else None
