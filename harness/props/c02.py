"""C02 — returned specifications are closed, one-rule-per-class, genuine and productive."""
import common
import speccheck

LEVEL_NOTE = (
    "checkSpec proven sound (checkSpec_sound: root has a rule, distinct left-hand sides, every child has a rule or is "
    "empty, every class productive by the independent fixed point lfpRef); every returned specification's "
    "(parent, children, shifts) skeleton goes through it; genuineness is re-derived in Python by re-applying each "
    "rule's strategy (and rebuilding reverse/equivalence/path forms)"
)


def judge(res, o, lean):
    cfg = o["cfg"]
    if lean is None or "line" not in o:
        return
    chk, msh, _status, _model = speccheck.parse_lean(lean)
    if not chk:
        res.fail("spec-not-closed-or-not-productive", cfg, {"skeleton": o["line"][:600]})
    psh = speccheck.py_shifts(o["line"])
    if psh != msh:
        bad = {c: (psh.get(c), msh.get(c)) for c in set(psh) | set(msh) if psh.get(c) != msh.get(c)}
        res.diff("rule.shifts() vs model shifts (class: python, model)", cfg, str(bad), o["line"][:400])
    for g in o["genuine"]:
        res.fail("rule-not-genuine", cfg, g)
    if not o["root_is_0"]:
        res.fail("start-class-has-no-rule", cfg, "")


def run(tier, seed, factor=1):
    return speccheck.run_specs("C02", tier, seed, factor, judge)


def search(tier, seed):
    return run(tier, seed + 1000, factor=2)


def replay(case):
    r = common.Result("C02")
    o = speccheck.worker((case["input"], 6))
    lean = common.run_driver("Spec", o["line"] + "\n")[0] if "line" in o and "genuine" in o else None
    judge(r, o, lean)
    return r.failures[0] if r.failures else None
