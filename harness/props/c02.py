"""C02 — returned specifications are closed, one-rule-per-class, genuine and productive."""
import common
import speccheck

LEVEL_NOTE = (
    "checkSpec proven sound (checkSpec_sound: root has a rule, distinct left-hand sides, every child has a rule or is "
    "empty, every class productive by the independent fixed point lfpRef); every returned specification's "
    "(parent, children, shifts) skeleton goes through it; genuineness is re-derived in Python by re-applying each "
    "rule's strategy (and rebuilding reverse/equivalence/path forms)"
)


def judge(res, o, lean):
    cfg = o["cfg"]
    if o.get("status") == "exc" and o.get("found") and "Can't find a rule for ForestRuleKey" not in o.get("exc", ""):
        # the database holds a specification for the start class, but building its rules (reverse / equivalence forms) fails
        # (the ForestRuleKey message is C11's known finding F14 and is judged there)
        res.fail("search-finds-a-specification-but-raises-instead-of-handing-it-back", cfg, o["exc"])
    if lean is None or "line" not in o:
        return
    chk, msh, _status, _model = speccheck.parse_lean(lean)
    if not chk:
        res.fail("spec-not-closed-or-not-productive", cfg, {"skeleton": o["line"][:600]})
    psh = speccheck.py_shifts(o["line"])
    if psh != msh:
        bad = {c: (psh.get(c), msh.get(c)) for c in set(psh) | set(msh) if psh.get(c) != msh.get(c)}
        res.diff("rule.shifts() vs model shifts (class: python, model)", cfg, str(bad), o["line"][:400])
    for g in o["genuine"]:
        res.fail("rule-not-genuine", cfg, g)
    if not o["root_is_0"]:
        res.fail("start-class-has-no-rule", cfg, "")


# ------------------------------------------------------------------ table universes: structure only, no semantics
def table_worker(args):
    """searches on table universes (classes are ids, strategies look their children up in random tables; a union and a
    product strategy may give the same children with other shifts): the specification handed back is judged from its
    (parent, children, shifts) alone"""
    import random
    import signal

    import specrun
    import utable
    from comb_spec_searcher import CombinatorialSpecificationSearcher
    import comb_spec_searcher.comb_spec_searcher as css_mod
    from comb_spec_searcher.exception import ExceededMaxtimeError, SpecificationNotFound
    from comb_spec_searcher.rule_db import RuleDB, RuleDBForest, RuleDBForgetStrategy
    from comb_spec_searcher.strategies.rule import VerificationRule
    from utable import TC

    seed, count = args
    rnd = random.Random(seed)
    outs = []
    signal.signal(signal.SIGALRM, speccheck._alarm)
    for _ in range(count):
        n = rnd.randint(3, 9)
        U = utable.gen_universe(rnd, n)
        TC.U = U
        pack = utable.gen_pack(rnd, iterative=False)
        # only the forest database decides productivity from the shifts itself; the union-find databases rely on the
        # strategies being combinatorially sound, which random tables are not
        dbname = "RuleDBForest"
        o = {"desc": {"table_seed": seed, "db": dbname, "n": n}, "problems": []}
        signal.alarm(30)
        real, st = css_mod.time, random.getstate()
        try:
            db = RuleDBForest(reverse=True) if dbname == "RuleDBForest" else {"RuleDB": RuleDB, "RuleDBForgetStrategy": RuleDBForgetStrategy}[dbname]()
            s = CombinatorialSpecificationSearcher(TC(0), pack, ruledb=db)
            specrun.quiet()
            css_mod.time = specrun.TickClock()
            random.seed(seed)
            try:
                spec = s.auto_search(perc=rnd.choice([100, 20]), max_expansion_time=3000)
            except (SpecificationNotFound, ExceededMaxtimeError):
                o["status"] = "nospec"
                outs.append(o)
                continue
            except RuntimeError as exc:
                if "Can't find a rule for ForestRuleKey" in str(exc):  # C11's known finding (foreign-parent factory rules)
                    o["status"] = "nospec"
                    outs.append(o)
                    continue
                raise
            o["status"] = "spec"
            idx = {}

            def ci(c):
                return idx.setdefault(c, len(idx))

            ci(spec.root)
            for rule in list(spec):
                for ch in rule.children:
                    spec.get_rule(ch)
            recs = []
            for cc, rule in list(spec.rules_dict.items()):
                if isinstance(rule, VerificationRule) or not rule.children:
                    recs.append(f"c={ci(cc)}&k=ver")
                else:
                    recs.append(f"c={ci(cc)}&k=ver&sub={','.join(str(ci(x)) for x in rule.children)}&sh={','.join(map(str, rule.shifts()))}")
            empties = sorted(i for c, i in idx.items() if c.is_empty())
            o["line"] = f"{len(idx)} 0 0 0 {','.join(map(str, empties)) or '-'} " + "#".join(recs)
            o["genuine"] = [f"{r.comb_class!r}: {g}" for r in spec for g in [specrun.genuine(r)] if g]
            o["root_ok"] = spec.root == TC(0)
        except speccheck.Timeout:
            o["status"] = "timeout"
        except Exception as exc:  # noqa: BLE001
            o["status"] = "raises"
            o["problems"].append(("search-finds-a-specification-but-raises-instead-of-handing-it-back", specrun.exc_info(exc)))
        finally:
            signal.alarm(0)
            css_mod.time = real
            random.setstate(st)
            specrun.quiet()
        outs.append(o)
    return outs


def run(tier, seed, factor=1):
    import specrun

    res = speccheck.run_specs("C02", tier, seed, factor, judge)
    jobs = [(seed * 7907 + i, common.scale(tier, 12, 40)) for i in range(common.scale(tier, 48, 400) * factor)]
    outs = [o for part in specrun.pool_map(table_worker, jobs) for o in part]
    specrun.quiet()
    lines = [o["line"] for o in outs if "line" in o]
    lean = common.run_driver("Spec", "\n".join(lines) + "\n") if lines else []
    k = 0
    for o in outs:
        res.case(("table", repr(o["desc"]), o.get("line", "")[:80]), nontrivial="line" in o)
        res.dist["table universe:" + o.get("status", "?")] += 1
        for sig, d in o["problems"]:
            res.fail(sig, o["desc"], d)
        if "line" in o:
            res.traces += 1
            chk = speccheck.parse_lean(lean[k])[0]
            k += 1
            if not chk:
                res.fail("spec-not-closed-or-not-productive", o["desc"], {"skeleton": o["line"][:600]})
            for g in o["genuine"]:
                res.fail("rule-not-genuine", o["desc"], g)
            if not o["root_ok"]:
                res.fail("start-class-has-no-rule", o["desc"], "")
    return res


def search(tier, seed):
    return run(tier, seed + 1000, factor=2)


def replay(case):
    r = common.Result("C02")
    o = speccheck.worker((case["input"], 6))
    lean = common.run_driver("Spec", o["line"] + "\n")[0] if "line" in o and "genuine" in o else None
    judge(r, o, lean)
    return r.failures[0] if r.failures else None
