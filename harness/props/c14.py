"""C14 — default and memory-saving rule databases are observationally identical."""
import random

import common
import speccheck
import specrun
import utable
from comb_spec_searcher import CombinatorialSpecificationSearcher
from comb_spec_searcher.exception import SpecificationNotFound, StrategyDoesNotApply
from comb_spec_searcher.rule_db import RuleDB, RuleDBForgetStrategy
from comb_spec_searcher.strategies.strategy import AbstractStrategy, StrategyFactory
from props.c04 import logging_db
from utable import TC

LEVEL_NOTE = (
    "the shared base logic never inspects a stored strategy except through lookup; lookup of the memory-saving flavour "
    "is modelled in Lean and proven sound (a handed-back strategy reproduces the key on one of the key's classes) and "
    "complete for replayable keys (lookup_sound, lookup_complete); the two real databases are fed the same rule stream "
    "and compared after every insertion (verified labels, has_specification, stored keys, contains, handed-back strategies); "
    "two independent searches, one per flavour, must record the same rule stream"
)


def clean_key(searcher, rule):
    """(start, sorted non-empty child labels) of a re-applied rule, or None if a class is not in the database"""
    cdb = searcher.classdb
    try:
        if rule.comb_class not in cdb:
            return None
        if any(c not in cdb for c in rule.children):
            return None
        kids = [c for c in rule.children if not (rule.possibly_empty and c.is_empty())]
        return (cdb.get_label(rule.comb_class), tuple(sorted(cdb.get_label(c) for c in kids)))
    except Exception:  # noqa: BLE001
        return None


class Pair:
    """a searcher running on the default database with a memory-saving database fed the same events"""

    def __init__(self, start, pack, ev, rnd, query_prob):
        self.problems, self.events, self.rnd, self.qp = [], 0, rnd, query_prob
        self.forget = RuleDBForgetStrategy()
        self.linked = False
        self.pending = []
        self.default = logging_db(RuleDB, [self.hook])
        self.s = CombinatorialSpecificationSearcher(start, pack, ruledb=self.default, expand_verified=ev)
        specrun.quiet()
        self.flush()

    def hook(self, db, start, ends, rule):
        self.pending.append((start, tuple(ends), rule))
        if getattr(db, "_searcher", None) is not None and hasattr(db.searcher, "tried_to_verify"):
            pass

    def flush(self):
        """feed the events the default database has received so far to the memory-saving one, comparing after each"""
        if not self.linked:
            self.forget.link_searcher(self.s)
            self.linked = True
        while self.pending:
            start, ends, rule = self.pending.pop(0)
            self.events += 1
            try:
                self.forget.add(start, ends, rule)
            except Exception as exc:  # noqa: BLE001
                self.problems.append(("forget-add-raises", specrun.exc_info(exc)))
        self.compare()

    def compare(self):
        a, b = self.default, self.forget
        n = len(self.s.classdb.label_to_info)
        try:
            if set(a) != set(b):
                self.problems.append(("stored-keys-differ", f"{sorted(set(a) ^ set(b))[:4]}"))
            va = [a.is_verified(l) for l in range(n)]
            vb = [b.is_verified(l) for l in range(n)]
            if va != vb:
                self.problems.append(("verified-labels-differ", f"{va} vs {vb}"))
            if self.rnd.random() < self.qp:
                ha, hb = a.has_specification(), b.has_specification()
                if ha != hb:
                    self.problems.append(("has_specification-differs", f"{ha} vs {hb}"))
                va = [a.is_verified(l) for l in range(n)]
                vb = [b.is_verified(l) for l in range(n)]
                if va != vb:
                    self.problems.append(("verified-labels-differ-after-search", f"{va} vs {vb}"))
            keys = list(set(a))
            probes = [(k[0], k[1]) for k in self.rnd.sample(keys, min(len(keys), 6))]
            probes += [(self.rnd.randrange(n), tuple(sorted(self.rnd.randrange(n) for _ in range(self.rnd.randint(0, 3))))) for _ in range(4)]
            for st, en in probes:
                want = (st, tuple(sorted(en))) in set(a)
                for name, db in (("RuleDB", a), ("RuleDBForgetStrategy", b)):
                    try:
                        shuffled = list(en)
                        self.rnd.shuffle(shuffled)
                        got = db.contains(st, tuple(shuffled))
                    except Exception as exc:  # noqa: BLE001
                        self.problems.append(("contains-raises", f"{name}.contains({st}, {en}): {specrun.exc_info(exc)}"))
                        continue
                    if got != want:
                        self.problems.append(("contains-wrong", f"{name}.contains({st}, {en}) = {got}, stored: {want}"))
        except Exception as exc:  # noqa: BLE001
            self.problems.append(("comparison-raises", specrun.exc_info(exc)))

    def strategies_back(self, sid=None):
        """for every stored key of a non-empty class: the strategy each flavour hands back reproduces the key"""
        out = []
        cdb = self.s.classdb
        for name, db in (("RuleDB", self.default), ("RuleDBForgetStrategy", self.forget)):
            for key in sorted(set(db)):
                parent = cdb.get_class(key[0])
                if parent.is_empty():
                    continue
                eq = key in db.eqv_rule_to_strategy
                try:
                    strat = (db.eqv_rule_to_strategy if eq else db.rule_to_strategy)[key]
                except Exception as exc:  # noqa: BLE001
                    # is the key recomputable at all from its own classes? (a rule yielded by a factory from a class that is
                    # not among the rule's classes is not: the known design limit of the memory-saving flavour)
                    sig = "strategy-not-handed-back:" if self.replayable(key, eq) else "key-not-replayable-from-its-own-classes:"
                    self.problems.append((sig + name, f"key {key}: {specrun.exc_info(exc)[:150]}"))
                    if name != "RuleDB":
                        out.append((key, eq, "none"))
                    continue
                ok = False
                for lbl in (key[0],) + key[1]:
                    try:
                        r = strat(cdb.get_class(lbl))
                    except StrategyDoesNotApply:
                        continue
                    if clean_key(self.s, r) == key:
                        ok = True
                        break
                if not ok and name == "RuleDBForgetStrategy":
                    self.problems.append(("handed-back-strategy-does-not-reproduce-key:" + name, f"key {key}: {strat!r}"))
                if name != "RuleDB" and sid is not None:
                    out.append((key, eq, str(sid(strat))))
        return out

    def replayable(self, key, only_equiv):
        cdb = self.s.classdb
        for lbl in (key[0],) + key[1]:
            c = cdb.get_class(lbl)
            for st in self.s.strategy_pack:
                items = list(st(c)) if isinstance(st, StrategyFactory) else [st]
                for it in items:
                    try:
                        r = it(c) if isinstance(it, AbstractStrategy) else it
                    except StrategyDoesNotApply:
                        continue
                    if clean_key(self.s, r) == key and (not only_equiv or r.is_two_way()):
                        return True
        return False

    def run(self, maxpackets=400):
        try:
            for _ in range(maxpackets):
                wp = next(self.s.classqueue)
                if self.s.expand_verified or not self.s.ruledb.is_verified(wp.label):
                    self.s._expand(self.s.classdb.get_class(wp.label), wp.label, wp.strategies, wp.inferral)
                self.flush()
        except StopIteration:
            pass


def table_worker(args):
    seed, count = args
    rnd = random.Random(seed)
    specrun.quiet()
    res = []
    for _ in range(count):
        n = rnd.randint(2, 9)
        TC.U = utable.gen_universe(rnd, n)
        pack = utable.gen_pack(rnd, iterative=rnd.random() < 0.3)
        ev = rnd.random() < 0.3
        o = {"seed": seed, "n": n, "problems": [], "events": 0}
        try:
            lines = utable.universe_lines(n, pack, ev)
            idx = {}
            for s in list(pack):
                idx.setdefault(repr(s), len(idx))
            # same numbering as universe_lines (first appearance over initial, inferral, expansion, ver, symmetries)
            order = list(pack.initial_strats) + list(pack.inferral_strats) + [s for ss in pack.expansion_strats for s in ss] + list(pack.ver_strats) + list(pack.symmetries)
            idx = {}
            for s in order:
                idx.setdefault(repr(s), len(idx))
            p = Pair(TC(0), pack, ev, rnd, 0.3)
            p.run()
            back = p.strategies_back(lambda st: idx.get(repr(st), "?"))
            o["problems"] = p.problems
            o["events"] = p.events
            cdb = p.s.classdb
            cls = ",".join(str(cdb.get_class(l).i) for l in range(len(cdb.label_to_info)))
            if back:
                o["lines"] = lines + ["L " + cls + " | " + ";".join(f"{k[0]}:{','.join(map(str, k[1]))}:{int(eq)}" for k, eq, _ in back)]
                o["expect"] = " ".join(v for _, _, v in back)
                o["factories"] = {str(i) for r, i in idx.items() if r.startswith("TFactory")}
            # independent search with the memory-saving flavour: same event stream
            ev1, ev2 = [], []
            for DB, log in ((RuleDB, ev1), (RuleDBForgetStrategy, ev2)):
                s = CombinatorialSpecificationSearcher(TC(0), pack, ruledb=logging_db(DB, [lambda _d, st, en, ru, log=log: log.append((st, tuple(en), repr(ru.strategy)))]), expand_verified=ev)
                specrun.quiet()
                try:
                    for _ in range(400):
                        wp = next(s.classqueue)
                        if s.expand_verified or not s.ruledb.is_verified(wp.label):
                            s._expand(s.classdb.get_class(wp.label), wp.label, wp.strategies, wp.inferral)
                        s.ruledb.has_specification()
                except StopIteration:
                    pass
            if ev1 != ev2:
                o["problems"].append(("independent-searches-record-different-rules", f"{len(ev1)} vs {len(ev2)} events"))
        except Exception as exc:  # noqa: BLE001
            o["problems"].append(("harness-or-searcher-raises", specrun.exc_info(exc)))
        res.append(o)
    return res


def observed_run(cfg, dbname, observe, maxpackets=250):
    """an independent search on database `dbname`; with `observe`, after every insertion a few stored keys are looked up
    (strategy handed back) while the search is still running. Returns (stored keys, verified labels, number of labels)."""
    root, pack, _ = specrun.build(cfg)
    hooks = []
    db = logging_db(specrun.DBS[dbname], hooks)
    s = CombinatorialSpecificationSearcher(root, pack, ruledb=db, expand_verified=cfg["expand_verified"])
    specrun.quiet()
    rnd = random.Random(cfg["seed"])

    def look(d, _st, _en, _rule):
        keys = sorted(set(d))
        for key in rnd.sample(keys, min(3, len(keys))):
            try:
                (d.eqv_rule_to_strategy if key in d.eqv_rule_to_strategy else d.rule_to_strategy)[key]
            except Exception:  # noqa: BLE001  (judged by strategies_back)
                pass

    if observe:
        hooks.append(look)
    try:
        for _ in range(maxpackets):
            wp = next(s.classqueue)
            if s.expand_verified or not s.ruledb.is_verified(wp.label):
                s._expand(s.classdb.get_class(wp.label), wp.label, wp.strategies, wp.inferral)
    except StopIteration:
        pass
    n = len(s.classdb.label_to_info)
    return set(db), [db.is_verified(l) for l in range(n)], n


def word_worker(cfg):
    import signal

    signal.signal(signal.SIGALRM, speccheck._alarm)
    signal.alarm(40)
    out = {"cfg": cfg, "problems": [], "events": 0}
    try:
        specrun.quiet()
        root, pack, _db = specrun.build(cfg)
        p = Pair(root, pack, cfg["expand_verified"], random.Random(cfg["seed"]), 0.3)
        p.run(250)
        p.strategies_back()
        out["problems"] = p.problems
        out["events"] = p.events
        # independent searches: the default database unobserved vs the memory-saving one with look-ups after every insertion
        try:
            ka, va, na = observed_run(cfg, "RuleDB", False)
            kb, vb, nb = observed_run(cfg, "RuleDBForgetStrategy", True)
            if ka != kb:
                out["problems"].append(("stored-keys-differ-when-looked-up-during-the-search", f"{sorted(ka ^ kb)[:4]} ({na} vs {nb} labels)"))
            elif va != vb:
                out["problems"].append(("verified-labels-differ-when-looked-up-during-the-search", f"{va} vs {vb}"))
        except speccheck.Timeout:
            raise
        except Exception as exc:  # noqa: BLE001
            out["problems"].append(("observed-search-raises", specrun.exc_info(exc)))
        # end to end: both flavours find a specification (or both do not)
        res = []
        for dbname in ("RuleDB", "RuleDBForgetStrategy"):
            c2 = dict(cfg, db=dbname, smallest=False)
            try:
                _r, spec, _s = specrun.search(c2)
                res.append("spec")
            except SpecificationNotFound:
                res.append("nospec")
            except speccheck.Timeout:
                raise
            except Exception as exc:  # noqa: BLE001
                res.append("EXC " + specrun.exc_info(exc)[:120])
        if res[0] != res[1]:
            out["problems"].append(("search-outcome-differs-between-flavours", f"RuleDB: {res[0]}; RuleDBForgetStrategy: {res[1]}"))
    except speccheck.Timeout:
        out["timeout"] = True
    except Exception as exc:  # noqa: BLE001
        out["problems"].append(("harness-or-searcher-raises", specrun.exc_info(exc)))
    finally:
        signal.alarm(0)
    return out


def run(tier, seed, factor=1):
    res = common.Result("C14")
    res.rule = ("rule streams produced by real searches on table universes and word universes (incl. packs whose verification strategies apply "
                "to classes other strategies could also expand, factories with foreign-parent rules); after every packet's insertions both "
                "databases are compared (stored keys, verified labels, has_specification with probability 0.3, contains on stored and random "
                "keys in shuffled child order), at the end every stored key's handed-back strategy is re-applied and compared with the Lean "
                "lookup; independent searches per flavour must record the same rules; non-trivial = >=3 recorded rules; distinct by seed/config")
    touts = [o for part in specrun.pool_map(table_worker, [(seed * 7919 + i, common.scale(tier, 10, 30)) for i in range(common.scale(tier, 64, 600) * factor)]) for o in part]
    specrun.quiet()
    batch = [o for o in touts if "lines" in o]
    lean = common.run_driver("Lookup", "\n".join("\n".join(o["lines"]) for o in batch) + "\n") if batch else []
    lean = [l for l in lean if l != ""]
    assert len(lean) == len(batch), (len(lean), len(batch))
    for o, l in zip(batch, lean):
        # a factory hands back the strategy it yielded, the model reports the factory's own index: not compared
        pairs = [(m, e) for m, e in zip(l.split(" "), o["expect"].split(" ")) if m not in o["factories"]]
        if any(m != e for m, e in pairs):
            res.diff("strategy handed back by RuleDBForgetStrategy vs Lean lookup", {"table_seed": o["seed"]}, l[:300], o["expect"][:300])
    for o in touts:
        res.case(("table", o["seed"], o["n"], o["events"]), nontrivial=o["events"] >= 3)
        res.dist["events fed to both databases (table)"] += o["events"]
        res.traces += 1
        seen = set()
        for sig, detail in o["problems"]:
            if sig not in seen:
                seen.add(sig)
                res.fail(sig, {"table_seed": o["seed"]}, detail)
    rnd = random.Random(seed * 1000003 + 14)
    cfgs = speccheck.make_configs(rnd, common.scale(tier, 120, 1500) * factor)
    for _ in range(max(16, len(cfgs) // 10)):  # a unary strategy whose is_reversible and is_two_way disagree
        c = specrun.rand_config(rnd, "rot")
        c.update(rot="rev", alpha=rnd.choice(["ab", "abc"]), symmetry=False)
        cfgs.append(c)
    drnd = random.Random(seed * 2750159 + 14)
    for _ in range(max(16, len(cfgs) // 10)):  # a factory that yields a strategy which does not apply before the one that does
        c = specrun.rand_config(drnd, None)
        c.update(factory="decoy", reverse_needed=False, rot=False, sep=None, prefver=None, packver=None)
        cfgs.append(c)
    for c in cfgs:
        c["iterative"] = c["iterative"] and c["db"] != "RuleDBForest"
    wouts = specrun.pool_map(word_worker, cfgs)
    specrun.quiet()
    for o in wouts:
        res.case(("cfg", repr(sorted(o["cfg"].items()))), nontrivial=o["events"] >= 3)
        res.dist["events fed to both databases (word)"] += o["events"]
        res.traces += 1
        seen = set()
        for sig, detail in o["problems"]:
            if sig not in seen:
                seen.add(sig)
                res.fail(sig, o["cfg"], detail)
    return res


def search(tier, seed):
    return run(tier, seed + 1000, factor=2)


def replay(case):
    inp = case["input"]
    if "alpha" in inp:
        o = word_worker(inp)
        want = case.get("signature")
        for sig, detail in o["problems"]:
            if want is None or sig == want:
                return {"signature": sig, "input": inp, "detail": detail}
        return None
    if "table_seed" in inp:
        outs = table_worker((inp["table_seed"], inp.get("count", 10)))
        want = case.get("signature")
        for o in outs:
            for sig, detail in o["problems"]:
                if want is None or sig == want:
                    return {"signature": sig, "input": inp, "detail": detail}
        return None
    return None
