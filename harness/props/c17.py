"""C17 — a search pickled or interrupted at any point resumes faithfully."""
import pickle
import random

import comb_spec_searcher.comb_spec_searcher as css_mod
import common
import speccheck
import specrun
import upword
import utable
from comb_spec_searcher import CombinatorialSpecificationSearcher
from comb_spec_searcher.exception import ExceededMaxtimeError, SpecificationNotFound
from comb_spec_searcher.rule_db import RuleDB, RuleDBForest, RuleDBForgetStrategy
from utable import TC

LEVEL_NOTE = (
    "exec_split proven for the Lean engine (a deterministic fold over a state that is plain data: interrupting after any "
    "prefix and continuing reaches the uninterrupted state); has_spec_monotone / prune_mono and Comp.mono_rules proven "
    "(a specification, once present, stays); on the real code every interruption point k is enumerated: expand k packets, "
    "pickle, compare, continue both, compare after every packet; the time limit is driven by a tick clock so that the "
    "limit fires after every possible number of clock readings, and auto_search is called again until it returns"
)


def snapshot(s):
    db = s.classdb
    n = len(db.label_to_info)
    # emptiness as an answer: the cached value, or - where nothing is cached yet - the class's own answer (asked of the class, not
    # of the database: a snapshot must not fill caches; `==` on a memory-saving database recomputes rules and may fill them)
    d = dict(classes=[repr(db.get_class(l)) for l in range(n)],
             empty=[bool(e) if e is not None else bool(db.get_class(l).is_empty()) for l, e in enumerate(db.empty_list)],
             tried=sorted(s.tried_to_verify),
             sym=sorted(s.symmetry_expanded), inf=sorted(s.inferral_expanded))
    r = s.ruledb
    if hasattr(r, "rule_to_strategy"):
        d["rules"] = sorted(r.rule_to_strategy) if isinstance(r, RuleDBForgetStrategy) else sorted((k, repr(v)) for k, v in r.rule_to_strategy.items())
        d["eqv"] = sorted(r.eqv_rule_to_strategy)
        d["part"] = [min(x for x in range(n) if r.equivdb.equivalent(a, x)) for a in range(n)]
    else:
        d["rules"] = sorted((k.parent, k.children, k.shifts, k.bucket.name) for k in r.table_method._rules)
        d["values"] = sorted(r.table_method.function.items())
    d["ver"] = [r.is_verified(l) for l in range(n)]
    q = s.classqueue
    d["queue"] = (list(q.working), sorted(q.next_level.items()), [list(x) for x in q.curr_level], sorted(q.ignore), list(q.queue_sizes),
                  [repr(w) for w in q.staging], sorted(q._inferral_expanded), sorted(q._initial_expanded))
    return d


def step(s, k, trace=None):
    done = 0
    while done < k:
        try:
            wp = next(s.classqueue)
        except StopIteration:
            break
        if trace is not None:
            trace.append((wp.label, repr(wp.strategies), wp.inferral))
        if s.expand_verified or not s.ruledb.is_verified(wp.label):
            s._expand(s.classdb.get_class(wp.label), wp.label, wp.strategies, wp.inferral)
        done += 1
    return done


def make(kind, spec):
    """a fresh searcher for (kind, spec): word config or table universe"""
    if kind == "word":
        root, pack, db = specrun.build(spec)
        s = CombinatorialSpecificationSearcher(root, pack, ruledb=db, expand_verified=spec["expand_verified"])
    else:
        U, pack, dbname, ev = spec
        TC.U = U
        db = {"RuleDB": RuleDB, "RuleDBForgetStrategy": RuleDBForgetStrategy, "RuleDBForest": RuleDBForest}[dbname]()
        s = CombinatorialSpecificationSearcher(TC(0), pack, ruledb=db, expand_verified=ev)
    specrun.quiet()
    return s


def pickle_points(kind, spec, maxk, search_every):
    """every interruption point k: expand k packets (asking for a specification every `search_every` packets, which is
    part of the history), pickle, compare, continue both"""
    problems = []
    ref = make(kind, spec)
    ref_trace = []
    total = 0
    snaps = [snapshot(ref)]
    while total < maxk:
        if step(ref, 1, ref_trace) == 0:
            break
        total += 1
        if search_every and total % search_every == 0:
            ref.has_specification()
        snaps.append(snapshot(ref))
    points = 0
    for k in range(total + 1):
        s = make(kind, spec)
        for i in range(1, k + 1):
            step(s, 1)
            if search_every and i % search_every == 0:
                s.has_specification()
        if snapshot(s) != snaps[k]:
            problems.append(("search-not-deterministic", f"k={k}"))
            break
        try:
            s2 = pickle.loads(pickle.dumps(s))
        except Exception as exc:  # noqa: BLE001
            problems.append(("pickle-raises", f"k={k}: {specrun.exc_info(exc)}"))
            break
        points += 1
        try:
            same = s2 == s and s == s2
        except Exception as exc:  # noqa: BLE001
            problems.append(("restored-searcher-equality-raises:" + type(s.ruledb).__name__, f"k={k}: {specrun.exc_info(exc)[:200]}"))
            break
        if not same:
            problems.append(("restored-searcher-not-equal:" + type(s.ruledb).__name__, f"k={k}"))
        if snapshot(s2) != snaps[k]:
            problems.append(("restored-state-differs", f"k={k}"))
            break
        # continue the restored one: same work, same universe, same answers after every packet
        tr2 = []
        i = k
        ok = True
        while i < total:
            step(s2, 1, tr2)
            i += 1
            if search_every and i % search_every == 0:
                s2.has_specification()
            if snapshot(s2) != snaps[i]:
                problems.append(("continuation-differs", f"pickled at k={k}, differs after packet {i}"))
                ok = False
                break
        if ok and tr2 != ref_trace[k:total]:
            problems.append(("continuation-work-differs", f"pickled at k={k}"))
        if ok and s2.has_specification() != ref_has(ref, kind, spec, total, search_every):
            problems.append(("continuation-answer-differs", f"pickled at k={k}"))
        if problems:
            break
    return problems, points


_REF_CACHE = {}


def ref_has(ref, kind, spec, total, search_every):
    key = id(ref)
    if key not in _REF_CACHE:
        _REF_CACHE.clear()
        _REF_CACHE[key] = ref.has_specification()
    return _REF_CACHE[key]


class LimitClock:
    """tick clock: every reading advances by 1 (so the time limit fires after a chosen number of readings)"""

    def __init__(self):
        self.t = 0.0

    def time(self):
        self.t += 1.0
        return self.t


class _Enough(Exception):
    pass


class QueueTap:
    """proxy of the class queue that logs every work packet handed out: [label, strategies, inferral, handled?] where handled
    means: expanded, or legitimately skipped because the label was verified when the loop came back for the next packet"""

    def __init__(self, q, log, searcher, cap=None):
        self._q, self._log, self._s, self._cap = q, log, searcher, cap

    def __iter__(self):
        # through the queue's own __iter__ (the searcher's loops iterate over the queue)
        it = iter(self._q)
        tap = self

        class _It:
            def __iter__(self):
                return self

            def __next__(self):
                return tap._take(it)

        return _It()

    def settle(self):
        if self._log and self._log[-1][3] is None:
            lbl = self._log[-1][0]
            self._log[-1][3] = "verified" if (not self._s.expand_verified and self._s.ruledb.is_verified(lbl)) else False

    def __next__(self):
        return self._take(self._q)

    def _take(self, source):
        self.settle()
        if self._cap is not None and len(self._log) >= self._cap:
            raise _Enough()
        item = next(source)
        self._log.append([item[0], tuple(str(x) for x in item[1]), bool(item[2]), None])
        return item

    def __getattr__(self, name):
        return getattr(self._q, name)


def tap(s, cap=None):
    """log the packets the searcher takes from its queue and what became of each"""
    log = []
    s.classqueue = QueueTap(s.classqueue, log, s, cap)
    orig = s._expand

    def expand(comb_class, label, strategies, inferral):
        if log and log[-1][0] == label and log[-1][3] is None:
            log[-1][3] = True
        return orig(comb_class, label, strategies, inferral)

    s._expand = expand
    return log


def reference_outcome(cfg):
    """does an uninterrupted search of the same configuration (same tick clock) hand back a specification?"""
    root, pack, db = specrun.build(cfg)
    s = CombinatorialSpecificationSearcher(root, pack, ruledb=db, expand_verified=cfg["expand_verified"])
    specrun.quiet()
    real = css_mod.time
    css_mod.time = LimitClock()
    st = random.getstate()
    random.seed(cfg["seed"])
    try:
        s.auto_search(perc=cfg["perc"])
        return "spec"
    except SpecificationNotFound:
        return "nospec"
    except Exception:  # noqa: BLE001
        return "exc"
    finally:
        css_mod.time = real
        random.setstate(st)
        specrun.quiet()


def status_pickle_runs(cfg):
    """an auto_search that was asked for status updates (at an interval that never comes) and is cut off by its time limit: what a
    call is asked to report must not become part of what is saved - the restored searcher equals the interrupted one"""
    problems = []
    for limit in (0, 3):
        root, pack, db = specrun.build(cfg)
        s = CombinatorialSpecificationSearcher(root, pack, ruledb=db, expand_verified=cfg["expand_verified"])
        specrun.quiet()
        real = css_mod.time
        css_mod.time = LimitClock()
        st = random.getstate()
        random.seed(cfg["seed"])
        try:
            for interrupted in (1, 2):
                try:
                    s.auto_search(max_expansion_time=limit, perc=cfg["perc"], status_update=10 ** 9)
                    break
                except ExceededMaxtimeError:
                    pass
                except SpecificationNotFound:
                    break
                if not pickle.loads(pickle.dumps(s)) == s:
                    problems.append(("restored-searcher-not-equal-after-interrupted-auto_search:" + type(s.ruledb).__name__,
                                     f"limit={limit}, status_update given, interruption {interrupted}"))
                    break
        except Exception as exc:  # noqa: BLE001
            problems.append(("NOTE", f"status/pickle run: {specrun.exc_info(exc)[:200]}"))
        finally:
            css_mod.time = real
            random.setstate(st)
            specrun.quiet()
    return problems


def time_limit_runs(cfg, limits):
    problems, runs = [], 0
    ref = reference_outcome(cfg)
    for limit in limits:
        root, pack, db = specrun.build(cfg)
        s = CombinatorialSpecificationSearcher(root, pack, ruledb=db, expand_verified=cfg["expand_verified"])
        specrun.quiet()
        packets = tap(s)
        real = css_mod.time
        css_mod.time = LimitClock()
        spec, tries, interrupted = None, 0, 0
        st = random.getstate()
        random.seed(cfg["seed"])
        try:
            while spec is None and tries < 400:
                tries += 1
                # after two interruptions, odd limits go on without a limit (only where the uninterrupted search ends with a
                # specification, so that the call returns): a limit of an earlier call must not be in force any more
                unlimited = interrupted >= 2 and limit % 2 == 1 and ref == "spec"
                try:
                    spec = s.auto_search(perc=cfg["perc"]) if unlimited else s.auto_search(max_expansion_time=limit, perc=cfg["perc"])
                except ExceededMaxtimeError:
                    if unlimited:
                        problems.append(("call-without-a-time-limit-raises-ExceededMaxtimeError",
                                         f"after {interrupted} calls interrupted by the limit {limit}"))
                        break
                    interrupted += 1
                except SpecificationNotFound:
                    # the queue signalled exhaustion: every label that was handed out at all, is not stopped and not verified,
                    # must have received its initial strategies and every expansion set - over all the calls together
                    if interrupted:
                        want = (1 if pack.initial_strats else 0) + len(pack.expansion_strats)
                        got = {}
                        for lbl, _strats, inferral, _h in packets:
                            if not inferral:
                                got[lbl] = got.get(lbl, 0) + 1
                        ign = set(s.classqueue.ignore)
                        for lbl, k in sorted(got.items()):
                            if k < want and lbl not in ign and not s.ruledb.is_verified(lbl):
                                problems.append(("interrupted-search-exhausts-the-queue-without-all-work-for-a-label",
                                                 f"limit={limit}, interrupted {interrupted} times: label {lbl} got {k} of {want} non-inferral packets"))
                                break
                    if ref == "spec" and interrupted:
                        problems.append(("interrupted-search-gives-up-although-the-uninterrupted-one-finds-a-specification",
                                         f"limit={limit}, interrupted {interrupted} times, {len(packets)} packets taken"))
                    break
                specrun.quiet()
        except RuntimeError as exc:
            if "Can't find a rule for ForestRuleKey" in str(exc):
                # the forest extractor cannot turn a key back into a rule: a C11 matter (known finding there), not a resumption fault
                problems.append(("NOTE", "forest extractor could not find a rule for a key (see C11)"))
                continue
            problems.append(("resumed-search-raises", f"limit={limit}: {specrun.exc_info(exc)}"))
            continue
        except Exception as exc:  # noqa: BLE001
            problems.append(("resumed-search-raises", f"limit={limit}: {specrun.exc_info(exc)}"))
            continue
        finally:
            css_mod.time = real
            random.setstate(st)
            specrun.quiet()
        runs += 1
        # "continues from where it stopped": no work packet taken from the queue is lost - each one is expanded, or skipped
        # because its label is verified (the order of the packets themselves may legitimately depend on when the
        # specification searches merged equivalence classes, so it is not compared with an uninterrupted run)
        s.classqueue.settle()
        lost = [(i, p) for i, p in enumerate(packets) if p[3] is False]
        if lost:
            problems.append(("interrupted-search-loses-a-work-packet",
                             f"limit={limit}, interrupted {interrupted} times: packet {lost[0][0]} {lost[0][1][:3]} was taken from the queue but never expanded"))
        if spec is None:
            continue
        N = 6
        try:
            idx, line = specrun.spec_line(spec, N, N + 4)
            py = specrun.py_terms_line(spec, idx, N)
            if py != specrun.truth_line(idx, N):
                problems.append(("specification-after-interruptions-miscounts", f"limit={limit}, interrupted {interrupted} times"))
            gen = [f"{r.comb_class!r}: {g}" for r in spec for g in [specrun.genuine(r)] if g]
            if gen:
                problems.append(("specification-after-interruptions-not-genuine", gen[0]))
            yield_line = (line, py, limit, interrupted)
            problems.append(("LINE", yield_line))
        except Exception as exc:  # noqa: BLE001
            problems.append(("specification-after-interruptions-unusable", specrun.exc_info(exc)))
    return problems, runs


def worker(args):
    import signal

    signal.signal(signal.SIGALRM, speccheck._alarm)
    signal.alarm(90)
    kind, spec, tier = args
    out = {"kind": kind, "desc": spec if kind == "word" else {"table_seed": spec[4], "db": spec[2]}, "problems": [], "points": 0, "tl": 0, "lines": []}
    try:
        specrun.quiet()
        se = random.Random(repr(out["desc"])).choice([0, 0, 1, 3])
        probs, pts = pickle_points(kind, spec[:4] if kind == "table" else spec, 25 if tier == "quick" else 60, se)
        out["problems"] += probs
        out["points"] = pts
        if kind == "word":
            probs, runs = time_limit_runs(spec, [0, 1, 2, 3, 5, 8, 13, 30] if tier == "quick" else list(range(0, 40)))
            probs = probs + status_pickle_runs(spec)
            for sig, d in probs:
                if sig == "LINE":
                    out["lines"].append(d)
                elif sig == "NOTE":
                    out["notes"] = out.get("notes", 0) + 1
                else:
                    out["problems"].append((sig, d))
            out["tl"] = runs
    except speccheck.Timeout:
        out["timeout"] = True
    except Exception as exc:  # noqa: BLE001
        out["problems"].append(("harness-or-searcher-raises", specrun.exc_info(exc)))
    finally:
        signal.alarm(0)
    return out


def run(tier, seed, factor=1):
    res = common.Result("C17")
    res.rule = ("word searches (all three databases, inferral/symmetry/factories/verification packs) and table universes: for every prefix "
                "length k of the expansion sequence (with a specification search every 0/1/3 packets as part of the history): pickle, restored == "
                "original, identical canonical state, identical work / universe / answers after every further packet; for word searches the "
                "time limit fires after every chosen number of clock readings and auto_search is called again until it returns, the result "
                "going through the C01/C02 machinery; non-trivial = >=3 interruption points; distinct by config")
    rnd = random.Random(seed * 1000003 + 17)
    jobs = []
    cfgs = speccheck.make_configs(rnd, common.scale(tier, 60, 700) * factor)
    for _ in range(common.scale(tier, 20, 200) * factor):  # expansion sets with several strategies: several packets staged per class
        c = specrun.rand_config(rnd, "rot")
        c["rot"] = rnd.choice([True, "two", "two"])
        cfgs.append(c)
    for c in cfgs:
        c["smallest"] = False
        jobs.append(("word", c, tier))
    for i in range(common.scale(tier, 60, 700) * factor):
        r2 = random.Random(seed * 7901 + i)
        n = r2.randint(2, 8)
        U = utable.gen_universe(r2, n)
        pack = utable.gen_pack(r2, iterative=r2.random() < 0.3)
        jobs.append(("table", (U, pack, r2.choice(["RuleDB", "RuleDBForgetStrategy", "RuleDBForest"]), r2.random() < 0.3, seed * 7901 + i), tier))
    outs = specrun.pool_map(worker, jobs)
    specrun.quiet()
    lines, metas = [], []
    for o in outs:
        res.case((o["kind"], repr(o["desc"])), nontrivial=o["points"] >= 3)
        res.dist[f"{o['kind']}: pickle points"] += o["points"]
        res.dist["time-limit runs"] += o["tl"]
        res.dist[o["kind"] + ":" + (o["desc"]["db"] if isinstance(o["desc"], dict) and "db" in o["desc"] else "?")] += 1
        if o.get("timeout"):
            res.dist["timeout"] += 1
        res.dist["time-limit runs ending in the C11 key->rule finding"] += o.get("notes", 0)
        res.traces += 1
        seen = set()
        for sig, d in o["problems"]:
            if sig not in seen:
                seen.add(sig)
                res.fail(sig, o["desc"], d)
        for line, py, limit, interrupted in o["lines"]:
            lines.append(line)
            metas.append((o["desc"], py, limit, interrupted))
    lean = common.run_driver("Spec", "\n".join(lines) + "\n") if lines else []
    for (desc, py, limit, interrupted), l in zip(metas, lean):
        chk, _msh, status, model = speccheck.parse_lean(l)
        if interrupted:
            res.dist["specifications returned after >=1 interruption"] += 1
        if not chk:
            res.fail("specification-after-interruptions-not-closed-or-productive", desc, f"limit={limit}")
        if status != "ok" or model != py:
            res.diff("specification after interruptions: get_terms vs Lean evalSpec", desc, model[:200], py[:200])
    return res


def search(tier, seed):
    return run(tier, seed + 1000, factor=2)


def replay(case):
    inp = case["input"]
    if "alpha" in inp:
        o = worker(("word", inp, "quick"))
        want = case.get("signature")
        for sig, d in o["problems"]:
            if want is None or sig == want:
                return {"signature": sig, "input": inp, "detail": d}
        return None
    return "re-run the check with the recorded seed (table universes are regenerated from it)"
