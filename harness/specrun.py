"""Real searches over U-word / U-pword and skeleton extraction (shared by C01, C02, C07, C08, C18, C19, C20, ...).

A *config* is plain data (picklable); `search(cfg)` builds the classes/pack/database from it and runs the
library's own search, with the searcher's clock replaced by a tick clock so that `perc` controls the
time-slicing of the expand/search loop deterministically.
"""
import logging
import multiprocessing as mp
import os
import random
import traceback
from comb_spec_searcher.exception import SpecificationNotFound
from collections import Counter

import logzero

import comb_spec_searcher.comb_spec_searcher as css_mod
from comb_spec_searcher import CombinatorialSpecificationSearcher
from comb_spec_searcher.rule_db import RuleDB, RuleDBForest, RuleDBForgetStrategy
from comb_spec_searcher.strategies.constructor import CartesianProduct, Complement, DisjointUnion, Quotient
from comb_spec_searcher.strategies.rule import (
    EquivalencePathRule,
    EquivalenceRule,
    ReverseRule,
    Rule,
    VerificationRule,
)
from comb_spec_searcher.strategies.strategy import EmptyStrategy

import upword
from upword import PW, make_pack, true_terms

DBS = {"RuleDB": RuleDB, "RuleDBForgetStrategy": RuleDBForgetStrategy, "RuleDBForest": RuleDBForest}


def quiet():
    logzero.loglevel(logging.CRITICAL)


# ------------------------------------------------------------------ constructor arguments, recorded from outside
def _wrap_constructors():
    for cls, has_idx in ((DisjointUnion, False), (CartesianProduct, False), (Complement, True), (Quotient, True)):
        if getattr(cls, "_verif_wrapped", False):
            continue
        orig = cls.__init__

        def make(orig, has_idx):
            def init(self, parent, children, *a, **kw):
                children = tuple(children)
                if has_idx:
                    idx = a[0] if a else kw["idx"]
                    ep = a[1] if len(a) > 1 else kw.get("extra_parameters")
                else:
                    idx = 0
                    ep = a[0] if a else kw.get("extra_parameters")
                self._verif_args = (parent, children, idx, ep)
                orig(self, parent, children, *a, **kw)

            return init

        cls.__init__ = make(orig, has_idx)
        cls._verif_wrapped = True


_wrap_constructors()


class TickClock:
    """stands in for the `time` module inside comb_spec_searcher.comb_spec_searcher: every reading advances by 1"""

    def __init__(self):
        self.t = 0

    def time(self):
        self.t += 1
        return float(self.t)


# ------------------------------------------------------------------ configs
def rand_config(rnd, kind=None):
    alpha = rnd.choice(["ab", "ab", "ab", "abc", "a"])
    pats = upword.rand_patterns(rnd, alpha)
    params = [p for p in rnd.choice(upword.PARAM_SETS) if p[1] in alpha]
    mode = rnd.choice(upword.MODES) if params else rnd.choice(["", "", "", "", "track", "track last", "last"])
    db = rnd.choice(["RuleDB", "RuleDBForgetStrategy", "RuleDBForest", "RuleDBForest"])
    cfg = dict(
        alpha=alpha, patterns=pats, params=params, mode=mode, db=db,
        inferral=rnd.random() < 0.4, symmetry=rnd.random() < 0.3 and len(alpha) == 2,
        iterative=False, expand_verified=rnd.random() < 0.15, smallest=False,
        factory=rnd.choice([None, None, None, "plain", "foreign"]), prefver=None, reverse=True, reverse_needed=False,
        perc=rnd.choice([100, 50, 20, 5, 1]), seed=rnd.randrange(10**6), prefix="", rot=False, sep=None, packver=None,
    )
    r = rnd.random()
    if kind == "iterative" or (kind is None and r < 0.12 and db != "RuleDBForest"):
        cfg["iterative"] = True
        cfg["db"] = rnd.choice(["RuleDB", "RuleDBForgetStrategy"])
    elif kind == "smallest" or (kind is None and r < 0.3 and db != "RuleDBForest"):
        cfg["smallest"] = True
    if kind == "prefver" or (kind is None and rnd.random() < 0.2):
        cfg["prefver"] = rnd.choice([["a"], ["b"], ["a", "b"], ["ab", "ba"], ["aa", "b"], ["ab"], ["a", "ab", "b"]])
        cfg["prefver"] = [p for p in cfg["prefver"] if set(p) <= set(alpha)] or None
    if kind == "reverse_needed":
        if rnd.random() < 0.5:  # reverse union rules with several statistics and unusual dictionary orders / dropped statistics
            cfg["params"] = [p for p in rnd.choice([upword.PARAM_SETS[3], upword.PARAM_SETS[4], [("k_0", "a", 0), ("k_1", "b", 0)]]) if p[1] in alpha]
            cfg["mode"] = rnd.choice(["revnames revdict", "rename revnames revdict", "revdict", "revnames", "drop", "drop rename last"]) if cfg["params"] else ""
        cfg.update(db="RuleDBForest", reverse_needed=True, prefix=rnd.choice(["b", "a"]) if len(alpha) > 1 else "a",
                   factory=None, inferral=False, symmetry=False, iterative=False, smallest=False, prefver=None)
    if kind == "packver":
        pv = rnd.choice([["a"], ["b"], ["a", "b"], ["ab"]])
        cfg["packver"] = [p for p in pv if set(p) <= set(alpha)] or None
        cfg["prefver"] = None
    if kind == "rot":
        cfg.update(rot=rnd.choice([True, "split", "ne", "two", "perm", "ow"]), alpha=rnd.choice(["ab", "abc", "abc"]), symmetry=False)
        if cfg["rot"] == "perm":
            cfg["alpha"] = "abc"
        if cfg["rot"] == "ow":
            cfg.update(alpha="abc", db=rnd.choice(["RuleDB", "RuleDB", "RuleDBForgetStrategy", "RuleDBForest"]))
        if cfg["rot"] == "split":  # cycles of one-way rules closed by a later equivalence: the union-find databases, frequent queries
            cfg.update(alpha="abc", db=rnd.choice(["RuleDB", "RuleDB", "RuleDBForgetStrategy"]), perc=rnd.choice([100, 100, 50]),
                       iterative=False, smallest=False)
        cfg["patterns"] = upword.rand_patterns(rnd, cfg["alpha"], 3, 2)
        cfg["params"] = [p for p in cfg["params"] if p[1] in cfg["alpha"]]
    if kind == "sep":
        cfg.update(sep="plain", alpha="abc", symmetry=False, prefver=None)
        cfg["patterns"] = upword.rand_patterns(rnd, "ab", 3, 2)
        cfg["params"] = [p for p in rnd.choice(upword.PARAM_SETS + [[("k_0", "c", 0)], [("k_0", "c", 0), ("k_1", "a", 0)]]) if p[2] == 0]
        cfg["mode"] = rnd.choice(["", "rename"]) if cfg["params"] else ""
    if kind == "sep_reverse":
        a = rnd.choice(["a", "ab"])
        cfg.update(sep="reverse", alpha=a, db="RuleDBForest", reverse=True, symmetry=False, prefver=None, inferral=False,
                   iterative=False, smallest=False, factory=None, expand_verified=False)
        cfg["patterns"] = upword.rand_patterns(rnd, a, 3, 2)
        cfg["params"] = [p for p in rnd.choice(upword.PARAM_SETS) if p[2] == 0 and p[1] in a]
        cfg["mode"] = rnd.choice(["", "rename"]) if cfg["params"] else ""
    if db == "RuleDBForest" and rnd.random() < 0.25 and not cfg["reverse_needed"] and cfg["sep"] != "reverse":
        cfg["reverse"] = False
    return cfg


def revnames_config(rnd):
    """several statistics whose names the children list in another order than the strategies' dictionaries mention them"""
    cfg = rand_config(rnd, None)
    alpha = rnd.choice(["ab", "ab", "abc"])
    cfg.update(alpha=alpha, patterns=upword.rand_patterns(rnd, alpha),
               params=[p for p in rnd.choice([upword.PARAM_SETS[2], upword.PARAM_SETS[3], upword.PARAM_SETS[4]]) if p[1] in alpha],
               mode=rnd.choice(["revnames", "rename revnames", "revnames revdict", "rename revnames last", "revdict", "rename revnames revdict"]),
               symmetry=False, prefver=None, packver=None, rot=False, sep=None, reverse_needed=False, prefix="")
    cfg["prefver"] = None
    return cfg


def perm_config(rnd):
    """a universe with a rotation and a transposition of three letters (equivalence paths of non-commuting relabellings)"""
    cfg = rand_config(rnd, "rot")
    if cfg["rot"] != "perm":
        cfg.update(rot="perm", alpha="abc", patterns=upword.rand_patterns(rnd, "abc", 3, 2))
        if cfg["db"] != "RuleDBForest" and rnd.random() < 0.5:
            cfg["db"] = "RuleDBForest"
    return cfg


def pad_config(rnd):
    """a universe with relabellings written as unions with an empty first child (the equivalence's non-empty child is child 1,
    its maps depend on the position of the object in the tuple), over three letters so that the rule is walked backwards too"""
    cfg = rand_config(rnd, "rot")
    cfg.update(rot="pad", alpha="abc", iterative=False)
    return cfg


def build(cfg):
    if cfg.get("gram"):
        import ugram

        return ugram.build(cfg)
    pack = make_pack(
        cfg["mode"], cfg["inferral"], cfg["symmetry"], cfg["iterative"], cfg["factory"], cfg["prefver"],
        known=([""] if cfg["reverse_needed"] else (len(cfg["alpha"]) + 1 if cfg["sep"] == "reverse" else None)),
        reverse_needed=cfg["reverse_needed"], rot=cfg["rot"], sep=cfg["sep"], packver=cfg.get("packver"),
    )
    if cfg.get("depver"):
        # a verification strategy whose rules have a child (the class it is declared to depend on)
        from comb_spec_searcher import StrategyPack

        pack = StrategyPack(initial_strats=list(pack.initial_strats), inferral_strats=list(pack.inferral_strats),
                            expansion_strats=[list(ss) for ss in pack.expansion_strats],
                            ver_strats=list(pack.ver_strats) + [upword.DepVer(cfg["depver"])],
                            name=pack.name, symmetries=list(pack.symmetries), iterative=pack.iterative)
    root = PW(cfg["prefix"], cfg["patterns"], cfg["alpha"], False, cfg["params"])
    if cfg["db"] == "RuleDBForest":
        db = RuleDBForest(reverse=cfg["reverse"])
    else:
        db = DBS[cfg["db"]]()
    return root, pack, db


def search(cfg):
    """returns (root, spec) or raises"""
    root, pack, db = build(cfg)
    searcher = CombinatorialSpecificationSearcher(root, pack, ruledb=db, expand_verified=cfg["expand_verified"])
    quiet()
    clock = TickClock()
    real_time = css_mod.time
    st = random.getstate()
    random.seed(cfg["seed"])
    css_mod.time = clock
    try:
        kw = {"perc": cfg["perc"]}
        if cfg["smallest"]:
            kw["smallest"] = True
        try:
            spec = searcher.auto_search(**kw)
        except SpecificationNotFound:
            raise
        except Exception as exc:  # noqa: BLE001
            # did the search fail although the database holds a specification for the start class?
            try:
                exc.verif_found = bool(searcher.ruledb.has_specification())
            except BaseException:  # noqa: BLE001
                exc.verif_found = None
            raise
    finally:
        css_mod.time = real_time
        random.setstate(st)
        quiet()
    return root, spec, searcher


# ------------------------------------------------------------------ skeleton
def st(t):
    return "/".join(".".join(map(str, k)) + "=" + str(v) for k, v in sorted(t.items()) if v != 0)


def cdesc(c, e):
    return (f"C={','.join(c.extra_parameters)};E={','.join(a + ':' + b for a, b in (e or {}).items())};"
            f"MIN={c.minimum_size_of_object()};MAX={c.minimum_size_of_object() if c.is_atom() else '-'}")


KIND = {DisjointUnion: "union", CartesianProduct: "product", Complement: "complement", Quotient: "quotient"}


def rule_record(rule, c, ci, cap):
    """one record of the skeleton for `rule` whose left-hand side has index c"""
    if isinstance(rule, VerificationRule) or isinstance(rule.strategy, EmptyStrategy):
        return f"c={c}&k=ver&T=" + "+".join(f"{n}@{st(rule.get_terms(n))}" for n in range(cap + 1))
    con = rule.constructor
    parent, children, i, ep = con._verif_args
    ep = ep if ep is not None else tuple({} for _ in children)
    return (f"c={c}&k={KIND[type(con)]}&P={','.join(parent.extra_parameters)}&IDX={i}"
            f"&sub={','.join(str(ci(x)) for x in rule.children)}&sh={','.join(map(str, rule.shifts()))}"
            f"&CH=" + "~".join(cdesc(ch, e) for ch, e in zip(children, ep)))


def skeleton(spec, cap):
    """(class -> index, skeleton string, indices of empty classes). Touches every child so that lazily
    added empty rules exist."""
    idx = {}

    def ci(c):
        if c not in idx:
            idx[c] = len(idx)
        return idx[c]

    ci(spec.root)
    for rule in list(spec):
        for ch in rule.children:
            spec.get_rule(ch)
    recs = []
    for cc, rule in list(spec.rules_dict.items()):
        recs.append(rule_record(rule, ci(cc), ci, cap))
    empties = sorted(i for c, i in idx.items() if c.is_empty())
    return idx, "#".join(recs), empties


def fold_line(spec):
    """`R S H` for the proven grouping check foldedB (Driver/Folded.lean): the rule set with every equivalence path replaced by
    its constituent rules (R), the rule set as it stands (S), the classes only R has on a left-hand side (H); None when the
    specification has no equivalence path"""
    from comb_spec_searcher.strategies.rule import EquivalencePathRule

    idx = {}

    def ci(c):
        if c not in idx:
            idx[c] = len(idx)
        return idx[c]

    def rec(r):
        return (ci(r.comb_class), tuple(ci(ch) for ch in r.children), tuple(r.shifts()))

    R, S, paths = [], [], 0
    for cc, rule in list(spec.rules_dict.items()):
        S.append(rec(rule))
        if isinstance(rule, EquivalencePathRule):
            paths += 1
            R.extend(rec(r) for r in rule.rules)
        else:
            R.append(rec(rule))
    if not paths:
        return None
    heads = {p for p, _, _ in S}
    hidden = sorted({p for p, _, _ in R} - heads)

    def show(rs):
        return "|".join(f"{p}:{','.join(map(str, cs))}:{','.join(map(str, ss))}" for p, cs, ss in rs) or "-"

    return f"{show(R)} {show(S)} {','.join(map(str, hidden)) or '-'}"


def spec_line(spec, N, cap):
    idx, sk, empties = skeleton(spec, cap)
    return idx, f"{len(idx)} {N} {cap} {idx[spec.root]} {','.join(map(str, empties)) or '-'} {sk}"


def py_terms_line(spec, idx, N):
    out = []
    for c, i in sorted(idx.items(), key=lambda x: x[1]):
        rule = spec.rules_dict.get(c)
        out.append(f"{i}:" + ("|".join(st(rule.get_terms(n)) for n in range(N + 1)) if rule is not None else ""))
    return " ".join(out)


def truth_line(idx, N):
    return " ".join(f"{i}:" + "|".join(st(true_terms(c, n)) for n in range(N + 1)) for c, i in sorted(idx.items(), key=lambda x: x[1]))


# ------------------------------------------------------------------ genuineness (C02)
def reapply(strategy, comb_class):
    return strategy(comb_class)


def genuine(rule):
    """None if the rule is what its strategy (or the derived form named in it) produces when re-applied to the
    class; otherwise a description of the discrepancy."""
    try:
        if isinstance(rule, VerificationRule):
            if rule.comb_class.is_empty():
                return None
            if not rule.strategy.verified(rule.comb_class):
                return "verification strategy does not verify the class"
            return None
        if isinstance(rule.strategy, EmptyStrategy):
            return None if rule.comb_class.is_empty() else "empty rule for a non-empty class"
        if isinstance(rule, EquivalencePathRule):
            cur = rule.comb_class
            for r in rule.rules:
                if r.comb_class != cur:
                    return "equivalence path is not a chain"
                g = genuine(r)
                if g:
                    return "path step: " + g
                if len(r.children) != 1:
                    return "path step with several children"
                cur = r.children[0]
            if (cur,) != tuple(rule.children):
                return "path end differs from the rule's child"
            return None
        if isinstance(rule, EquivalenceRule):
            g = genuine(rule.original_rule)
            if g:
                return "equivalence of: " + g
            ne = rule.original_rule.non_empty_children()
            if len(ne) != 1 or (ne[0],) != tuple(rule.children) or rule.comb_class != rule.original_rule.comb_class:
                return "equivalence rule does not keep the only non-empty child"
            return None
        if isinstance(rule, ReverseRule):
            o = rule.original_rule
            g = genuine(o)
            if g:
                return "reverse of: " + g
            want = (o.comb_class,) + tuple(o.children[: rule.idx]) + tuple(o.children[rule.idx + 1:])
            if rule.comb_class != o.children[rule.idx] or tuple(rule.children) != want:
                return "reverse rule's classes are not those of the original rule"
            os_ = o.shifts()
            ws = (-os_[rule.idx],) + tuple(s - os_[rule.idx] for i, s in enumerate(os_) if i != rule.idx)
            if tuple(rule.shifts()) != ws:
                return f"reverse shifts {rule.shifts()} differ from {ws} derived from the original {os_}"
            return None
        again = reapply(rule.strategy, rule.comb_class)
        if tuple(again.children) != tuple(rule.children):
            return f"strategy re-applied gives children {again.children}, rule has {rule.children}"
        if tuple(again.shifts()) != tuple(rule.shifts()):
            return "strategy re-applied gives other shifts"
        return None
    except Exception as exc:  # noqa: BLE001
        return f"re-application raised {exc!r}"


def rule_kinds(spec, dist):
    for r in spec:
        k = type(r).__name__
        if isinstance(r, Rule):
            k += ":" + type(r.constructor).__name__
        dist[k] += 1


def cfg_tags(cfg):
    tags = [cfg["db"]]
    for k in ("inferral", "symmetry", "iterative", "expand_verified", "smallest", "reverse_needed", "rot"):
        if cfg[k]:
            tags.append(k)
    if cfg["factory"]:
        tags.append("factory:" + cfg["factory"])
    if cfg["prefver"]:
        tags.append("prefver")
    if cfg["sep"]:
        tags.append("sep:" + cfg["sep"])
    if cfg.get("packver"):
        tags.append("packver")
    if cfg["db"] == "RuleDBForest" and not cfg["reverse"]:
        tags.append("noreverse")
    tags.append(f"params={len(cfg['params'])}")
    if cfg["mode"]:
        tags.append("mode:" + cfg["mode"])
    tags.append(f"perc={cfg['perc']}")
    return tags


class _Guard:
    """a worker's alarm exception (a BaseException) must never escape into the pool machinery: that would kill the worker
    process and hang the map"""

    def __init__(self, fn):
        self.fn = fn

    def __call__(self, x):
        try:
            return self.fn(x)
        except Exception:
            raise
        except BaseException as exc:  # noqa: BLE001
            raise RuntimeError(f"worker interrupted outside its own handler: {type(exc).__name__}") from None


def pool_map(fn, items, procs=None):
    procs = procs or min(16, os.cpu_count() or 4)
    if len(items) <= 2 or procs <= 1:
        return [fn(x) for x in items]
    ctx = mp.get_context("fork")
    with ctx.Pool(procs) as pool:
        return pool.map(_Guard(fn), items, chunksize=max(1, len(items) // (procs * 4)))


def exc_info(exc):
    tb = traceback.extract_tb(exc.__traceback__)
    last = tb[-1] if tb else None
    where = f"{os.path.basename(last.filename)}:{last.lineno}" if last else "?"
    return f"{type(exc).__name__} at {where}: {str(exc)[:160]}".replace("\n", " ")
