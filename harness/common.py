"""Shared machinery of every check: lake build, axiom audit, Lean drivers, verdict, evidence.

Verdict logic (DESIGN.md 2.3):
  * proof obligations (lake build + `#print axioms` audit + forbidden-token grep) and the
    correspondence (implementation vs Lean model/reference on generated inputs) are computed;
  * independently the property oracle is evaluated on the implementation's outputs;
  * an oracle failure is a violation (unless listed in KNOWN_FINDINGS.json);
  * a broken proof/correspondence without oracle failure triggers a larger search with the oracle;
    nothing found -> VIOLATION ... no-failing-input-found.
"""
from __future__ import annotations

import collections
import fcntl
import hashlib
import json
import os
import re
import shutil
import subprocess
import sys
import tempfile
import time

ROOT = os.path.dirname(os.path.dirname(os.path.abspath(__file__)))
LEAN = os.path.join(ROOT, "lean")
WORK = os.path.join(ROOT, "work")
REPLAYS = os.path.join(ROOT, "replays")
EVIDENCE = os.path.join(ROOT, "evidence")
ALLOWED_AXIOMS = {"propext", "Classical.choice", "Quot.sound"}
FORBIDDEN = re.compile(
    r"\bsorry\b|\badmit\b|^axiom |native_decide|bv_decide|implemented_by|\bunsafe |maxHeartbeats 0"
)

TRUSTED_BASE = [
    "Lean 4.33.0 kernel; axioms allowed: propext, Classical.choice, Quot.sound (audited by #print axioms on every run); no sorry/native_decide/bv_decide",
    "Lean interpreter (lean --run) evaluating the proven references/checkers and the models on concrete inputs",
    "hand-written Lean models, tied to /repo only by this run's correspondence (agreement on generated inputs, not beyond)",
    "the Python harness: generators, skeleton extraction, canonicalisation, brute-force enumerators, enumerating RNG, step clock",
    "strategy contracts of the harness universes (checked up to the size bound, assumed beyond) where the property speaks of true counts",
]


# ------------------------------------------------------------------------------------------
# Lean side
# ------------------------------------------------------------------------------------------
class LeanStatus:
    def __init__(self):
        self.build_ok = False
        self.build_log = ""
        self.forbidden_hits = []
        self.axioms = {}  # theorem -> list of axioms or None (missing)
        self.audit_log = ""
        self.leanchecker = None  # thorough tier: verdict of the independent re-checker on the property's modules


def _lock():
    os.makedirs(WORK, exist_ok=True)
    f = open(os.path.join(WORK, ".lake.lock"), "w")
    fcntl.flock(f, fcntl.LOCK_EX)
    return f


def lean_build() -> LeanStatus:
    st = LeanStatus()
    lock = _lock()
    try:
        subprocess.run([os.path.join(ROOT, "tools", "gen_root.sh")], check=False)  # every module is built
        p = subprocess.run(
            ["lake", "build"], cwd=LEAN, capture_output=True, text=True, timeout=3000
        )
        st.build_ok = p.returncode == 0
        st.build_log = (p.stdout + p.stderr)[-6000:]
    finally:
        lock.close()
    # forbidden tokens outside comments
    for dp, _dn, fns in os.walk(LEAN):
        if ".lake" in dp or os.path.basename(dp) == "wip":  # lean/wip: scratch files, imported by nothing, not built
            continue
        for fn in fns:
            if not fn.endswith(".lean"):
                continue
            path = os.path.join(dp, fn)
            in_block = 0
            with open(path, encoding="utf-8") as fh:
                src_lines = fh.readlines()
            for i, line in enumerate(src_lines, 1):
                code = line
                # crude comment stripping: block comments tracked by depth, line comments cut
                out = ""
                j = 0
                while j < len(code):
                    if code.startswith("/-", j):
                        in_block += 1
                        j += 2
                    elif code.startswith("-/", j) and in_block:
                        in_block -= 1
                        j += 2
                    elif in_block:
                        j += 1
                    elif code.startswith("--", j):
                        break
                    else:
                        out += code[j]
                        j += 1
                if FORBIDDEN.search(out):
                    st.forbidden_hits.append(f"{os.path.relpath(path, LEAN)}:{i}: {line.strip()[:120]}")
    return st


def obligations_for(pid: str):
    with open(os.path.join(LEAN, "obligations.json")) as fh:
        ob = json.load(fh)
    e = ob.get(pid, {})
    return e.get("theorems", []), e.get("partial", []), e.get("imports", [])


def audit_axioms(st: LeanStatus, pid: str, tier: str = "quick"):
    thms, _partial, imports = obligations_for(pid)
    if not st.build_ok:
        for t in thms:
            st.axioms[t] = None
        return
    if tier == "thorough":
        # the toolchain's independent re-checker replays the compiled declarations of the property's modules in the kernel
        try:
            p = subprocess.run(["lake", "env", "leanchecker"] + list(imports or ["CSSVerif"]), cwd=LEAN, capture_output=True, text=True, timeout=1800)
            st.leanchecker = "ok" if p.returncode == 0 else ("FAILED: " + (p.stdout + p.stderr)[-1500:])
        except Exception as exc:  # noqa: BLE001
            st.leanchecker = f"FAILED: {exc!r}"
        if st.leanchecker != "ok":
            st.audit_log = st.leanchecker
            for t in thms:
                st.axioms[t] = None
            return
    src = "".join(f"import {m}\n" for m in (imports or ["CSSVerif"]))
    src += "".join(f"#print axioms {t}\n" for t in thms)
    os.makedirs(WORK, exist_ok=True)
    fd, path = tempfile.mkstemp(suffix=".lean", prefix=f"Audit_{pid}_", dir=WORK)
    os.write(fd, src.encode())
    os.close(fd)
    try:
        p = subprocess.run(
            ["lake", "env", "lean", path], cwd=LEAN, capture_output=True, text=True, timeout=600
        )
        out = p.stdout + p.stderr
        st.audit_log = out[-4000:]
        flat = re.sub(r"\s+", " ", out)
        for t in thms:
            short = t
            m = re.search(r"'" + re.escape(short) + r"' depends on axioms: \[([^\]]*)\]", flat)
            if m:
                st.axioms[t] = [a.strip() for a in m.group(1).split(",") if a.strip()]
            elif re.search(r"'" + re.escape(short) + r"' does not depend on any axioms", flat):
                st.axioms[t] = []
            else:
                st.axioms[t] = None
    finally:
        os.unlink(path)


def run_driver(driver: str, text: str, timeout=1800) -> list[str]:
    """Run `lake env lean --run Driver/<driver>.lean` with `text` on stdin; return output lines."""
    p = subprocess.run(
        ["lake", "env", "lean", "--run", f"Driver/{driver}.lean"],
        cwd=LEAN,
        input=text,
        capture_output=True,
        text=True,
        timeout=timeout,
    )
    if p.returncode != 0:
        raise RuntimeError(f"driver {driver} failed rc={p.returncode}: {p.stderr[-2000:]}")
    return p.stdout.split("\n")[:-1] if p.stdout.endswith("\n") else p.stdout.split("\n")


# ------------------------------------------------------------------------------------------
# Result accumulation
# ------------------------------------------------------------------------------------------
class Result:
    """What one run of a property's harness observed."""

    def __init__(self, pid: str):
        self.pid = pid
        self.evaluations = 0
        self._nontrivial = set()
        self.samples = []
        self.dist = collections.Counter()
        self.diffs = []  # correspondence disagreements (model/reference vs implementation)
        self.state_diffs = 0  # diagnostic only (internal state agreement)
        self.failures = []  # property-oracle failures on the real code: dict(signature, input, ...)
        self.traces = 0
        self.notes = []
        self.exhaustive = False
        self.rule = ""

    def case(self, canon, nontrivial=True, sample_every=0):
        self.evaluations += 1
        if nontrivial:
            h = hashlib.blake2b(repr(canon).encode(), digest_size=8).digest()
            self._nontrivial.add(h)
        if len(self.samples) < 4 and nontrivial:
            s = canon if len(repr(canon)) < 600 else repr(canon)[:600] + "…"
            if s not in self.samples:
                self.samples.append(s)

    @property
    def distinct_nontrivial(self):
        return len(self._nontrivial)

    def diff(self, what, inp, expected, got):
        if len(self.diffs) < 50:
            self.diffs.append({"what": what, "input": inp, "model": expected, "impl": got})
        else:
            self.diffs.append(None)

    def fail(self, signature, inp, detail):
        """A concrete input on which the property itself fails on the real code."""
        self.failures.append({"signature": signature, "input": inp, "detail": detail})

    def merge(self, other: "Result"):
        self.evaluations += other.evaluations
        self._nontrivial |= other._nontrivial
        for s in other.samples:
            if len(self.samples) < 6:
                self.samples.append(s)
        self.dist.update(other.dist)
        self.diffs += other.diffs
        self.state_diffs += other.state_diffs
        self.failures += other.failures
        self.traces += other.traces
        self.notes += other.notes


def known_findings():
    path = os.path.join(ROOT, "KNOWN_FINDINGS.json")
    if not os.path.exists(path):
        return []
    with open(path) as fh:
        return json.load(fh).get("findings", [])


def match_known(pid, failure, kf):
    for e in kf:
        if e.get("status") != "known":
            continue  # "fixed" entries suppress nothing
        if e["property"] != pid:
            continue
        if re.search(e["match"], failure["signature"]):
            return e
    return None


def write_replay(pid, seed, payload):
    os.makedirs(REPLAYS, exist_ok=True)
    name = f"{pid}_seed{seed}_{int(time.time())}_{os.getpid()}.json"
    path = os.path.join(REPLAYS, name)
    with open(path, "w") as f:
        json.dump(payload, f, indent=1, default=repr)
    return os.path.relpath(path, ROOT)


def finish(pid, tier, seed, t0, st: LeanStatus, res: Result, search_fn=None, level_note=""):
    """Apply the verdict logic, write evidence, print VIOLATION / KNOWN-FINDING lines, return rc."""
    thms, partial, _ = obligations_for(pid)
    discharged = [
        t for t in thms if st.axioms.get(t) is not None and set(st.axioms[t]) <= ALLOWED_AXIOMS
    ]
    proof_ok = st.build_ok and not st.forbidden_hits and len(discharged) == len(thms) and thms
    ndiffs = len(res.diffs)
    corr_ok = ndiffs == 0
    searched = False
    if (not proof_ok or not corr_ok) and not res.failures and search_fn is not None:
        searched = True
        try:
            extra = search_fn()
            res.merge(extra)
        except Exception as exc:  # search problems must not mask the verdict
            res.notes.append(f"search raised {exc!r}")
    kf = known_findings()
    rc = 0
    known_printed = 0
    seen_known = set()
    unlisted = []
    for f in res.failures:
        e = match_known(pid, f, kf)
        if e is not None:
            if e["id"] not in seen_known:
                seen_known.add(e["id"])
                print(f"KNOWN-FINDING: property={pid} {e['id']} {e['what']}")
                known_printed += 1
        else:
            unlisted.append(f)
    if unlisted:
        f0 = min(unlisted, key=lambda f: len(repr(f["input"])))
        path = write_replay(
            pid,
            seed,
            {"property": pid, "kind": "failing-input", "seed": seed, "tier": tier, **f0,
             "other_failures": len(unlisted) - 1},
        )
        print(f"VIOLATION property={pid} replay={path}")
        rc = 1
    elif not proof_ok or not corr_ok:
        what = []
        if not st.build_ok:
            what.append({"obligation": "lake build", "log": st.build_log[-3000:]})
        if st.forbidden_hits:
            what.append({"obligation": "no sorry/axiom/native_decide", "hits": st.forbidden_hits})
        for t in thms:
            if t not in discharged:
                what.append({"obligation": f"theorem {t}", "axioms": st.axioms.get(t)})
        if not thms:
            what.append({"obligation": "no theorem registered for this property"})
        if not corr_ok:
            what.append(
                {"obligation": "correspondence model/reference vs implementation",
                 "disagreements": ndiffs, "first": [d for d in res.diffs if d][:5]}
            )
        path = write_replay(
            pid, seed,
            {"property": pid, "kind": "obligation-no-longer-checks", "seed": seed, "tier": tier,
             "no_longer_checks": what, "searched_for_failing_input": searched},
        )
        print(f"VIOLATION property={pid} replay={path} no-failing-input-found")
        rc = 1
    wall = time.time() - t0
    cov = {
        "obligations": len(thms),
        "discharged": len(discharged),
        "checker_cmd": f"cd lean && lake build && lake env lean <audit: #print axioms of {len(thms)} theorems>"
                       + (f" && lake env leanchecker <modules> ({st.leanchecker})" if getattr(st, "leanchecker", None) else "")
                       + " && lake env lean --run Driver/*.lean",
        "trusted_base": TRUSTED_BASE,
        "theorems": {t: st.axioms.get(t) for t in thms},
        "partial_theorems": partial,
        "evaluations": res.evaluations,
        "distinct_nontrivial": res.distinct_nontrivial,
        "rule": res.rule,
        "samples": res.samples[:6] or ["(none)"],
        "traces_validated_against_impl": res.traces,
        "disagreements_checked": ndiffs,
        "state_disagreements_diagnostic": res.state_diffs,
        "oracle_failures": len(res.failures),
        "known_findings_printed": known_printed,
        "input_distribution": dict(sorted(res.dist.items())),
        "exhaustive": bool(res.exhaustive),
        "notes": res.notes[:20],
        "search_ran": searched,
    }
    ev = {
        "property_id": pid,
        "tier": tier,
        "seed": seed,
        "level": "proof",
        "coverage": cov,
        "assumptions": [level_note] if level_note else [],
        "wall_s": round(wall, 2),
        "violations": len(unlisted) if unlisted else (1 if rc else 0),
    }
    os.makedirs(EVIDENCE, exist_ok=True)
    tmp = os.path.join(EVIDENCE, f".{pid}.{os.getpid()}.tmp")
    with open(tmp, "w") as f:
        json.dump(ev, f, indent=1, default=repr)
    os.replace(tmp, os.path.join(EVIDENCE, f"{pid}.json"))
    print(
        f"[{pid}] tier={tier} seed={seed} theorems={len(discharged)}/{len(thms)} evaluations={res.evaluations} "
        f"nontrivial={res.distinct_nontrivial} diffs={ndiffs} state_diffs={res.state_diffs} "
        f"oracle_failures={len(res.failures)} known={known_printed} wall={wall:.1f}s rc={rc}"
    )
    return rc


def scale(tier, quick, thorough):
    return thorough if tier == "thorough" else quick
