"""Shared worker for the specification-level properties C01 / C02: one real search per config, skeleton to
Lean (proven checker + evaluator), Python's own terms, brute-force truth, genuineness of every rule."""
import random
from collections import Counter

import common
import specrun
import upword
from comb_spec_searcher.exception import SpecificationNotFound


class Timeout(BaseException):
    """raised by the per-worker alarm; a BaseException so that no `except Exception` (in the harness or in the library) swallows it"""


def _alarm(_sig, _frm):
    raise Timeout()


def worker(args):
    """one config, under a 40 s alarm (a change that makes a search or the counting loop forever must not hang the check)"""
    import signal

    signal.signal(signal.SIGALRM, _alarm)
    signal.alarm(40)
    try:
        return _worker(args)
    except Timeout:
        return {"cfg": args[0], "kinds": Counter(), "status": "timeout", "exc": "no result within 40 s"}
    finally:
        signal.alarm(0)


def _worker(args):
    cfg, N = args
    out = {"cfg": cfg, "kinds": Counter()}
    try:
        root, spec, _ = specrun.search(cfg)
    except Timeout:
        raise
    except SpecificationNotFound:
        out["status"] = "nospec"
        return out
    except Exception as exc:  # noqa: BLE001
        out["status"] = "exc"
        out["exc"] = specrun.exc_info(exc)
        out["found"] = getattr(exc, "verif_found", None)
        return out
    try:
        out["status"] = "spec"
        idx, line = specrun.spec_line(spec, N, N + 4)
        out["line"] = line
        out["fold"] = specrun.fold_line(spec)
        out["root_is_0"] = idx[spec.root] == 0 and spec.root == root
        out["nclasses"] = len(idx)
        out["genuine"] = [f"{r.comb_class!r}: {g}" for r in spec for g in [specrun.genuine(r)] if g]
        out["py"] = specrun.py_terms_line(spec, idx, N)
        out["truth"] = specrun.truth_line(idx, N)
        out["root_counts"] = [sum(spec.get_terms(n).values()) for n in range(N + 1)]
        out["root_truth"] = [sum(specrun.true_terms(root, n).values()) for n in range(N + 1)]
        specrun.rule_kinds(spec, out["kinds"])
        out["reverse_rules"] = sum(1 for k in out["kinds"] if k.startswith("ReverseRule"))
    except Timeout:
        out["status"] = "evaltimeout"
        out["exc"] = "counting did not finish within the time limit"
    except Exception as exc:  # noqa: BLE001
        out["status"] = "evalexc"
        out["exc"] = specrun.exc_info(exc)
    return out


class LeanLine(tuple):
    """(check, {cls: shifts}, status, terms string) with the extra attribute `wf` (verdict of skelWFB)"""
    wf = True


def parse_lean(line):
    """`check=1 msh=0:0,0;3:-1,0 wf=1 ok 0:...|... 1:...` -> (check, {cls: shifts}, status, terms string), .wf"""
    parts = line.split(" ")
    chk = parts[0] == "check=1"
    msh = {}
    body = parts[1][len("msh="):]
    if body:
        for item in body.split(";"):
            c, _, ss = item.partition(":")
            msh[int(c)] = ss
    k = 2
    wf = True
    if parts[k].startswith("wf="):
        wf = parts[k] == "wf=1"
        k += 1
    out = LeanLine((chk, msh, parts[k], " ".join(parts[k + 1:])))
    out.wf = wf
    return out


def py_shifts(line):
    """the shifts recorded in the skeleton (Python's rule.shifts()) per class"""
    out = {}
    for rec in line.split(" ", 5)[5].split("#"):
        f = dict(x.split("=", 1) for x in rec.split("&") if "=" in x)
        if f.get("k") != "ver":
            out[int(f["c"])] = f.get("sh", "")
    return out


def make_configs(rnd, n):
    cfgs = []
    for i in range(n):
        kind = None
        if i % 10 == 3:
            kind = "reverse_needed"
        elif i % 10 == 5:
            kind = "iterative"
        elif i % 10 == 7:
            kind = "prefver"
        elif i % 10 in (1, 6):
            kind = "rot"
        elif i % 10 == 8:
            kind = "sep"
        elif i % 10 == 9:
            kind = "sep_reverse"
        cfgs.append(specrun.rand_config(rnd, kind))
        if i % 8 == 4:  # U-gram (ugram.py): unions with a repeated child, products, reverse rules that are ordinary / equivalences
            cfg = dict(cfgs[-1])
            cfg.update(gram=[rnd.choice(["S", "F", "Y", "E", "Q", "Q", "P", "P", "R"]) for _ in range(rnd.choice([1, 2, 2, 3]))], gram_flat=rnd.random() < 0.7,
                       alpha="ab", patterns=[], params=[], mode="", prefix="", prefver=None, packver=None, factory=None, rot=False, sep=None,
                       reverse_needed=False, symmetry=False, inferral=False, iterative=False, reverse=True)
            if cfg["gram_flat"] and rnd.random() < 0.6:
                cfg["db"] = "RuleDBForest"  # the only database that can use the reverse rules these universes need
            cfgs[-1] = cfg
    return cfgs


def run_specs(pid, tier, seed, factor, judge):
    res = common.Result(pid)
    res.rule = ("real searches: random U-pword start classes (alphabets a/ab/abc, 1-3 patterns of length <=4, 0-3 statistics incl. "
                "position-restricted ones, six parameter-mapping modes) x {RuleDB, RuleDBForgetStrategy, RuleDBForest(reverse on/off)} x "
                "{inferral, symmetry, iterative, expand_verified, smallest, factories (plain/foreign parent), verification with a pack, "
                "a universe that needs a reverse rule} x time-slicings (tick clock, perc in {100,50,20,5,1}) x random proof-tree seeds; "
                "non-trivial = a specification with >=3 classes; distinct by config")
    rnd = random.Random(seed * 1000003 + int(pid[1:]))
    n = common.scale(tier, 320, 4000) * factor
    N = common.scale(tier, 6, 8)
    cfgs = make_configs(rnd, n)
    if pid == "C02":
        # productivity of what is returned depends on cycles of one-way rules being merged: more universes in which a cycle of
        # one-way rules is closed by a later equivalence, searched with frequent specification queries
        for _ in range(common.scale(tier, 48, 400) * factor):
            c = specrun.rand_config(rnd, "rot")
            c.update(rot="split", alpha="abc", db=rnd.choice(["RuleDB", "RuleDB", "RuleDBForgetStrategy"]), perc=rnd.choice([100, 100, 50]),
                     iterative=False, smallest=False)
            cfgs.append(c)
        # overlapping cycles of one-way rules (a rotation and its inverse, both one-way)
        for _ in range(common.scale(tier, 32, 300) * factor):
            c = specrun.rand_config(rnd, "rot")
            c.update(rot="ow", alpha="abc", db=rnd.choice(["RuleDB", "RuleDB", "RuleDBForgetStrategy"]), perc=rnd.choice([100, 100, 50, 20]),
                     iterative=False)
            c["patterns"] = upword.rand_patterns(rnd, "abc", 3, 2)
            cfgs.append(c)
    if pid == "C01":
        # ready rules made for classes other than the one being expanded (default / memory-saving databases key rules by label)
        for _ in range(common.scale(tier, 24, 240) * factor):
            c = specrun.rand_config(rnd, None)
            c.update(factory="lookahead", db=rnd.choice(["RuleDB", "RuleDBForgetStrategy", "RuleDB"]), iterative=False, reverse_needed=False,
                     prefver=None, packver=None, rot=False, sep=None, prefix="")
            if "track" in c["mode"]:
                c["mode"] = ""
            cfgs.append(c)
        # classes that can only be counted through a reverse product rule (quotient by a non-atom sibling): forest database
        for _ in range(common.scale(tier, 24, 240) * factor):
            c = specrun.rand_config(rnd, None)
            c.update(gram=[rnd.choice(["Q", "Q", "P", "K", "R"]) for _ in range(rnd.choice([1, 1, 2]))], gram_flat=True, alpha="ab", patterns=[],
                     params=[], mode="", prefix="", prefver=None, packver=None, factory=None, rot=False, sep=None, reverse_needed=False,
                     symmetry=False, inferral=False, iterative=False, smallest=False, reverse=True, db="RuleDBForest")
            cfgs.append(c)
    if pid in ("C01", "C02"):
        prnd = random.Random(seed * 104729 + int(pid[1:]))  # its own stream: the batches above keep theirs
        # equivalences whose only non-empty child is not the first child of the rule (a relabelling padded with an empty class),
        # in universes where they are walked in both directions
        for _ in range(common.scale(tier, 24, 240) * factor):
            c = specrun.rand_config(prnd, "rot")
            c.update(rot="pad", alpha="abc", db=prnd.choice(["RuleDB", "RuleDBForgetStrategy", "RuleDBForest"]), iterative=False)
            cfgs.append(c)
    if pid == "C01":
        # several classes verified by one strategy object that only offers a pack: their terms come from specifications the
        # library finds itself, one per class
        vrnd = random.Random(seed * 15485863 + 1)
        for _ in range(common.scale(tier, 24, 240) * factor):
            c = specrun.rand_config(vrnd, "packver")
            c.update(packver=["a", "b"], alpha=vrnd.choice(["ab", "abc"]), prefix="", rot=False, sep=None, reverse_needed=False, iterative=False,
                     factory=None)
            cfgs.append(c)
    outs = specrun.pool_map(worker, [(c, N) for c in cfgs])
    specrun.quiet()
    # a specification whose counting fails (status evalexc / evaltimeout) still has a skeleton: it is judged as well
    lines = [o["line"] for o in outs if "line" in o and "genuine" in o]
    lean = common.run_driver("Spec", "\n".join(lines) + "\n") if lines else []
    assert len(lean) == len(lines)
    if pid == "C02":
        # the grouping of equivalence chains into path rules, judged by the proven foldedB (foldedB_sound, foldedB_preserves)
        fo = [o for o in outs if o.get("fold")]
        got = common.run_driver("Folded", "\n".join(o["fold"] for o in fo) + "\n") if fo else []
        assert len(got) == len(fo)
        for o, g in zip(fo, got):
            res.dist["grouped rule set is the folding of the ungrouped one (foldedB)" if g == "folded=1" else "grouping not recognised by foldedB"] += 1
            if g != "folded=1":
                res.diff("grouping of equivalence chains vs the model's folding (foldedB)", o["cfg"], g, "folded=1 for " + o["fold"][:400])
    k = 0
    for o in outs:
        cfg = o["cfg"]
        for t in specrun.cfg_tags(cfg):
            res.dist[t] += 1
        res.dist["status:" + o["status"]] += 1
        if o["status"] != "spec":
            res.case(("cfg", repr(sorted(cfg.items()))), nontrivial=False)
            if o["status"] in ("exc", "evalexc", "timeout", "evaltimeout"):
                res.dist["exception: " + o["exc"][:90]] += 1
                if "line" in o and "genuine" in o:
                    judge(res, o, lean[k])
                    k += 1
                else:
                    judge(res, o, None)
            continue
        res.case(("cfg", repr(sorted(cfg.items()))), nontrivial=o["nclasses"] >= 3)
        res.traces += 1
        for kk, v in o["kinds"].items():
            res.dist["rule " + kk] += v
        judge(res, o, lean[k])
        k += 1
    return res
