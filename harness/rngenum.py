"""An enumerating random source: every outcome of every call to randint/choice made by the sampling code is
explored depth-first with exact Fraction weights (C08: the generator's decisions are enumerated, not sampled)."""
from collections import Counter
from fractions import Fraction

import comb_spec_searcher.strategies.constructor.cartesian as cart_mod
import comb_spec_searcher.strategies.constructor.disjoint as dis_mod
import comb_spec_searcher.strategies.rule as rule_mod
import upword


class Enum:
    def __init__(self):
        self.script, self.pos, self.trace = [], 0, []

    def pick(self, k):
        c = self.script[self.pos] if self.pos < len(self.script) else 0
        self.trace.append((c, k))
        self.pos += 1
        return c


E = Enum()


class FakeRandom:
    @staticmethod
    def randint(a, b):
        if b < a:
            raise ValueError("empty range for randint")
        return a + E.pick(b - a + 1)

    @staticmethod
    def choice(seq):
        if not len(seq):
            raise IndexError("Cannot choose from an empty sequence")
        return seq[E.pick(len(seq))]


class Patched:
    """context manager: replace the random source in the three modules that use it"""

    def __enter__(self):
        self.saved = (rule_mod.random, cart_mod.random, dis_mod.randint, upword._random)
        upword._random = FakeRandom
        rule_mod.random = FakeRandom
        cart_mod.random = FakeRandom
        dis_mod.randint = FakeRandom.randint
        return self

    def __exit__(self, *a):
        rule_mod.random, cart_mod.random, dis_mod.randint, upword._random = self.saved


def distribution(f, limit=20000):
    """exact distribution of f() over all outcomes of the random source; exceptions are outcomes too"""
    dist = Counter()
    stack = [[]]
    runs = 0
    while stack:
        script = stack.pop()
        E.script, E.pos, E.trace = script, 0, []
        try:
            res = f()
        except Exception as exc:  # noqa: BLE001
            res = f"EXC:{type(exc).__name__}"
        tr = E.trace
        for i in range(len(script), len(tr)):
            for alt in range(1, tr[i][1]):
                stack.append([c for c, _ in tr[:i]] + [alt])
        p = Fraction(1)
        for _, k in tr:
            p /= k
        dist[res] += p
        runs += 1
        if runs > limit:
            raise RuntimeError("too many outcomes")
    return dist
