"""Entry point: ./check <id> [--tier quick|thorough] [--replay file] [--search]"""
from __future__ import annotations

import argparse
import importlib
import json
import os
import sys
import time
import traceback

sys.path.insert(0, os.path.dirname(os.path.abspath(__file__)))
import common  # noqa: E402

def _quiet():
    """the library logs through logzero (and sets INFO on import); keep the check's output to its own lines"""
    import logging

    import comb_spec_searcher  # noqa: F401
    import logzero

    logzero.loglevel(logging.CRITICAL)


def _watchdog(tier):
    """a check that does not finish is a machinery error (exit 2), never a verdict: dump where it hangs and leave"""
    import faulthandler
    import signal

    limit = int(os.environ.get("VERIF_TIMEOUT", "1500" if tier == "quick" else "10800"))
    faulthandler.register(signal.SIGUSR1, all_threads=True)

    def on_timeout():
        sys.stderr.write(f"check did not finish within {limit} s; stacks follow\n")
        faulthandler.dump_traceback(all_threads=True)
        sys.stderr.flush()
        os._exit(2)

    import threading

    t = threading.Timer(limit, on_timeout)
    t.daemon = True
    t.start()


def main():
    ap = argparse.ArgumentParser()
    ap.add_argument("pid")
    ap.add_argument("--tier", default=os.environ.get("VERIF_TIER", "quick"))
    ap.add_argument("--replay")
    ap.add_argument("--search", action="store_true")
    a = ap.parse_args()
    tier = "thorough" if a.tier == "thorough" else "quick"
    seed = int(os.environ.get("VERIF_SEED", "0") or 0)
    pid = a.pid.upper()
    _watchdog(tier)
    mod = importlib.import_module(f"props.{pid.lower()}")
    _quiet()
    t0 = time.time()
    if a.replay:
        with open(a.replay, encoding="utf-8") as fh:
            case = json.load(fh)
        if case.get("kind") != "failing-input":
            print(json.dumps(case, indent=1)[:4000])
            print("replay: this file names an obligation that no longer checks; re-run the check to re-evaluate it")
            return 1
        out = mod.replay(case)
        if out:
            print(f"REPRODUCED property={pid}: {out}")
            return 1
        print(f"not reproduced on the current tree (property={pid})")
        return 0
    st = common.lean_build()
    common.audit_axioms(st, pid, tier)
    res = mod.run(tier, seed)
    # minimised past failures run on every check (corpus/<id>/*.json)
    cdir = os.path.join(common.ROOT, "corpus", pid)
    if os.path.isdir(cdir) and hasattr(mod, "replay"):
        for fn in sorted(os.listdir(cdir)):
            with open(os.path.join(cdir, fn), encoding="utf-8") as fh:
                case = json.load(fh)
            out = mod.replay(case)
            res.dist["corpus cases replayed"] += 1
            if isinstance(out, dict):
                res.failures.append(out)
    if a.search:
        res.merge(mod.search(tier, seed))
    return common.finish(
        pid, tier, seed, t0, st, res,
        search_fn=(lambda: mod.search(tier, seed)) if hasattr(mod, "search") else None,
        level_note=getattr(mod, "LEVEL_NOTE", ""),
    )


if __name__ == "__main__":
    try:
        rc = main()
    except SystemExit:
        raise
    except BaseException:  # machinery errors are exit 2, never 1
        traceback.print_exc()
        rc = 2
    sys.exit(rc)
