"""Rule-level universe for C09 / C10 (and the object maps of C07): every applicable strategy of U-pword on a grid of
classes, every derived form (plain, equivalence, reverse w.r.t. every child, equivalence of a reverse, chains folded
into an equivalence path), sub-term providers bound to brute-force enumeration."""
import random
from collections import Counter

import specrun
import upword
from comb_spec_searcher.exception import StrategyDoesNotApply
from comb_spec_searcher.strategies.rule import EquivalencePathRule
from upword import MODES, PARAM_SETS, PW, SW, Expand, Peel, Reduce, Rot, SepSplit, SepUnion, Swap, true_terms


EXTRA = None  # "peelcut": the dedicated universe of one strategy class instantiated with several settings (set by the caller of collect)


def strategies(mode):
    if EXTRA == "peelcut" and not mode.startswith("gram:"):
        return [Peel(mode), Peel(mode, cut=1), Peel(mode, cut=2)]
    if EXTRA == "altnames" and not mode.startswith("gram:"):
        return [Expand((mode + " altnames").strip())]
    if mode.startswith("gram:"):  # U-gram: the table-driven strategies of that universe
        import ugram

        return list(ugram.inner_pack(mode[5:]).initial_strats)
    return [Expand(mode), Peel(mode), Reduce(), Swap(), Rot(mode, 1, False), Rot(mode, 2, True), Rot(mode, 0, True, "bac"), Rot("canon", 1, True), Rot("canon", 0, True, "bac"), SepUnion(mode), SepSplit(mode)]


def forms(rule):
    yield "plain", rule
    if rule.is_equivalence():
        try:
            yield "equiv", rule.to_equivalence_rule()
        except NotImplementedError:
            pass
    if not rule.is_reversible():
        return
    for i in range(len(rule.children)):
        if rule.children[i].is_empty():
            continue
        r = rule.to_reverse_rule(i)
        yield f"rev{i}", r
        if r.is_equivalence():
            try:
                yield f"rev{i}-equiv", r.to_equivalence_rule()
            except NotImplementedError:
                pass


def unary_forms(c, mode):
    """all unary equivalence rule objects with parent c (for building paths)"""
    out = []
    for s in strategies(mode):
        try:
            rule = s(c)
        except StrategyDoesNotApply:
            continue
        if rule.comb_class.is_empty():
            continue
        if len(rule.children) == 1 and rule.is_equivalence():
            out.append(rule)
        elif rule.is_equivalence():
            try:
                out.append(rule.to_equivalence_rule())
            except NotImplementedError:
                pass
    return out


def paths(c, mode, rnd, maxlen=3):
    """random chains of unary equivalence rules starting at c, folded into EquivalencePathRules"""
    res = []
    for _ in range(2):
        chain, cur = [], c
        for _ in range(rnd.randint(2, maxlen)):
            opts = unary_forms(cur, mode)
            if not opts:
                break
            r = rnd.choice(opts)
            chain.append(r)
            cur = r.children[0]
        if len(chain) >= 2:
            try:
                res.append(("path" + str(len(chain)), EquivalencePathRule(chain)))
            except (NotImplementedError, AssertionError):
                pass
    return res


def classes(rnd, count, products=False):
    """products=True biases towards classes to which Peel applies, with statistics that get merged on a child"""
    out = []
    while len(out) < count:
        alpha = rnd.choice(["ab", "ab", "abc", "a"])
        pats = upword.rand_patterns(rnd, alpha, 3, 3)
        params = [p for p in rnd.choice(PARAM_SETS + [[("k_0", "c", 0), ("k_1", "a", 0)]]) if p[1] in alpha]
        mode = rnd.choice(MODES)
        if rnd.random() < (0.4 if products else 0.15) and len(alpha) >= 2:
            if products:
                params = [p for p in rnd.choice([PARAM_SETS[4], PARAM_SETS[4], PARAM_SETS[2], [("k_0", "a", 0), ("k_1", "a", 0)]]) if p[1] in alpha]
                mode = rnd.choice(["merge", "merge rename", ""])
            rest = alpha[:-1]
            pats2 = upword.rand_patterns(rnd, rest, 3, 2)
            c = SW(pats2, rest, alpha[-1], [p for p in params if p[2] == 0])
        elif products and rnd.random() < 0.7:
            params = [p for p in rnd.choice([PARAM_SETS[3], PARAM_SETS[4], PARAM_SETS[4], PARAM_SETS[2]]) if p[1] in alpha]
            mode = rnd.choice(["merge", "merge rename", "drop merge rename"])
            prefix = "".join(rnd.choice(alpha) for _ in range(rnd.choice([1, 2, 2, 3])))
            c = PW(prefix, pats, alpha, False, params)
            if not c.is_empty() and upword.safe_front(c) > 0:
                out.append((c, mode))
            continue

        else:
            plen = rnd.choice([0, 0, 1, 1, 2, 3, 4])
            prefix = "".join(rnd.choice(alpha) for _ in range(plen))
            c = PW(prefix, pats, alpha, False, params)
        if c.is_empty():
            continue
        out.append((c, mode))
        if rnd.random() < 0.06:  # U-gram rules: products whose first factor is not an atom and has a positive minimum, repeated children
            import ugram

            sig = rnd.choice(["Q", "Y", "E", "F", "S", "QY", "P", "P", "R", "R"])
            pack = ugram.inner_pack(sig)
            names = [k for st in pack.initial_strats for k in getattr(st, "table", {})]
            if names:
                out.append((ugram.GL(rnd.choice(names), sig), "gram:" + sig))
    return out


class LogProvider:
    """the terms of a child as a rule of a specification would hand them out: the *same* Counter object on every request for a
    size (a rule's terms cache) - whoever receives it must not modify it"""

    def __init__(self, cls, log, who):
        self.cls, self.log, self.who = cls, log, who
        self.cache = {}

    def __call__(self, n):
        self.log.append((self.who, n))
        if n not in self.cache:
            t = true_terms(self.cls, n)
            if EXTRA == "zeros" and not t:
                # a provider may hand out explicit zero entries (a Counter is not stripped of them): "no objects" then is a
                # non-empty mapping
                t = Counter({tuple(0 for _ in self.cls.extra_parameters): 0})
            self.cache[n] = (t, dict(t))
        return self.cache[n][0]

    def modified(self):
        return [(n, snap, dict(t)) for n, (t, snap) in sorted(self.cache.items()) if dict(t) != snap]


def evaluate(name, rule, N):
    """run one rule form: python terms, truth, logged reads, shifts, skeleton line for the Lean model"""
    out = {"form": name, "rule": f"{type(rule).__name__} {rule.comb_class!r} -> {rule.children!r} via {rule.strategy!r}",
           "kind": type(rule).__name__}
    log = []
    rule.subterms = tuple(LogProvider(ch, log, i) for i, ch in enumerate(rule.children))
    orig_get_terms = rule.get_terms

    def own_terms(n):
        log.append(("own", n))
        return orig_get_terms(n)

    rule.get_terms = own_terms  # the constructor receives self.get_terms as the provider of the rule's own earlier terms
    py, reads = [], []
    try:
        out["shifts"] = list(rule.shifts())
        out["constructor"] = type(rule.constructor).__name__
        for n in range(N + 1):
            del log[:]
            t = orig_get_terms(n)
            py.append(specrun.st(t))
            reads.append(sorted(set(log), key=str))
        out["py"] = py
        out["reads"] = reads
    except Exception as exc:  # noqa: BLE001
        out["exc"] = specrun.exc_info(exc)
        out["py"] = py
        if len(reads) == len(py):
            reads.append(sorted(set(log), key=str))  # what was requested for the size at which counting failed
        out["reads"] = reads
    out["truth"] = [specrun.st(true_terms(rule.comb_class, n)) for n in range(N + 1)]
    for prov in rule.subterms:
        for n, before, after in prov.modified():
            out["mutated"] = (f"the terms of child {prov.who} ({prov.cls!r}) for size {n}, handed to the rule by their provider, were "
                              f"modified in place: {specrun.st(before)} -> {specrun.st(after)}")
    # skeleton: class 0 = the rule, classes 1.. = its children as tables of their true terms
    try:
        idx = {}

        def ci(c):
            return idx[c]

        for i, ch in enumerate(rule.children):
            idx.setdefault(ch, len(idx) + 1)
        cap = N + max([0] + [-x for x in out.get("shifts", [])]) + 1
        recs = [specrun.rule_record(rule, 0, ci, cap)]
        for ch, i in idx.items():
            recs.append(f"c={i}&k=ver&T=" + "+".join(f"{n}@{specrun.st(true_terms(ch, n))}" for n in range(cap + 1)))
        out["line"] = f"{len(idx) + 1} {N} {cap} 0 - " + "#".join(recs)
        out["mins"] = [ch.minimum_size_of_object() for ch in rule.children]
    except Exception as exc:  # noqa: BLE001
        out["skel_exc"] = specrun.exc_info(exc)
    return out


def worker(args):
    seed, count, N = args
    rnd = random.Random(seed)
    specrun.quiet()
    upword.LAZY_MIN = [0, 0, 0, 2, 99][seed % 5]  # some jobs with minimum sizes reported only as "at least 1"
    try:
        return _worker(rnd, count, N)
    finally:
        upword.LAZY_MIN = 0


def _worker(rnd, count, N):
    res = []
    for c, mode in classes(rnd, count):
        for s in strategies(mode):
            try:
                rule = s(c)
            except StrategyDoesNotApply:
                continue
            try:
                fs = list(forms(rule))
            except Exception as exc:  # noqa: BLE001
                res.append({"form": "forms", "rule": repr((s, c)), "exc": specrun.exc_info(exc), "py": [], "reads": [], "truth": [], "kind": "?"})
                continue
            for name, r in fs:
                if r.comb_class.is_empty():
                    continue
                o = evaluate(name, r, N)
                o["desc"] = {"class": c.to_jsonable(), "sw": isinstance(c, SW), "mode": mode, "strategy": type(s).__name__, "form": name,
                             "repr": repr(s), "extra": EXTRA}
                o["mode"] = mode
                o["strategy"] = type(s).__name__
                o["nparams"] = len(c.params)
                res.append(o)
        for name, r in paths(c, mode, rnd):
            try:
                o = evaluate(name, r, N)
            except NotImplementedError:
                continue
            o["mode"] = mode
            o["strategy"] = "path"
            o["nparams"] = len(c.params)
            res.append(o)
    return res


def collect(seed, nclasses, N, procs=16):
    per = max(1, nclasses // (procs * 2))
    jobs = [(seed * 1000 + i, per, N) for i in range((nclasses + per - 1) // per)]
    outs = specrun.pool_map(worker, jobs)
    specrun.quiet()
    return [o for part in outs for o in part]


def replay_desc(desc, N=6):
    """rebuild one rule form from its descriptor and evaluate it"""
    d = dict(desc["class"])
    if "sig" in d:
        import ugram

        c = ugram.GL.from_dict(d)
    else:
        c = (SW if desc.get("sw") else PW).from_dict(d)
    global EXTRA
    saved, EXTRA = EXTRA, desc.get("extra")
    try:
        strats = strategies(desc["mode"])
    finally:
        EXTRA = saved
    for s in strats:
        if type(s).__name__ == desc["strategy"] and desc.get("repr", repr(s)) == repr(s):
            rule = s(c)
            for name, r in forms(rule):
                if name == desc["form"]:
                    o = evaluate(name, r, N)
                    o["desc"] = desc
                    o["mode"] = desc["mode"]
                    return o
    return None
