import sys, logging, itertools, traceback
sys.path.insert(0,"/tmp/probe")
from pw import *
import logzero; logzero.loglevel(logging.ERROR)
from comb_spec_searcher.rule_db import *
from comb_spec_searcher.isomorphism import Isomorphism, Bijection
specs={}
pats=[["aa"],["bb"],["ab"],["ba"],["aba","bb"],["bab","aa"],["aab"],["abb"],["aa","bb"],["a"],["b"],["aaa"],["bbb"],["aba"],["bab"]]
for P in pats:
    for DB in (RuleDB, RuleDBForest):
        root=PW("",P,"ab"); s=CombinatorialSpecificationSearcher(root, ppack, ruledb=DB()); specs[(tuple(P),DB.__name__)]=s.auto_search(); logzero.loglevel(logging.ERROR)
bad=0
for k,sp in specs.items():
    try:
        if not Isomorphism.check(sp,sp): bad+=1; print("NOT REFLEXIVE",k)
    except Exception as e: bad+=1; print("EXC refl",k,repr(e)[:100])
n=0
for (k1,s1),(k2,s2) in itertools.combinations(specs.items(),2):
    try:
        a=Isomorphism.check(s1,s2); b=Isomorphism.check(s2,s1)
    except Exception as e:
        bad+=1; print("EXC",k1,k2,repr(e)[:100]); continue
    if a!=b: bad+=1; print("ASYM",k1,k2,a,b)
    if a:
        n+=1
        bj=Bijection.construct(s1,s2)
        for sz in range(7):
            dom=list(s1.generate_objects_of_size(sz)); cod=set(s2.generate_objects_of_size(sz))
            try:
                img=[bj.map(w) for w in dom]
                if set(img)!=cod or len(set(img))!=len(img) or any(bj.inverse_map(bj.map(w))!=w for w in dom) or any(bj.map(bj.inverse_map(w))!=w for w in cod):
                    bad+=1; print("BAD BIJ",k1,k2,sz); break
            except Exception as e:
                bad+=1; print("EXC map",k1,k2,sz,repr(e)[:100]); break
print("iso pairs",n,"bad",bad)
