import sys, random, logging
sys.path.insert(0,"/tmp/probe")
from tu import *
import logzero
from comb_spec_searcher.rule_db import RuleDB
def flags(st): return "".join("1" if b else "0" for b in (st.ignore_parent, st.inferrable, st.possibly_empty, st.workable))
def ruleout(rule):
    st=rule.strategy
    return f"{rule.comb_class.i}:{','.join(str(c.i) for c in rule.children)}:{flags(st)}:{int(st.is_two_way(rule.comb_class))}:{int(isinstance(st, VerificationStrategy))}"
inp=[]; exp=[]
rnd=random.Random(int(sys.argv[2]))
for t in range(int(sys.argv[1])):
    n=rnd.randint(2,9); TC.U=gen_universe(rnd,n); IT=rnd.random()<0.5; pack=gen_pack(rnd, iterative=IT); ev=rnd.random()<0.3
    strats=[]; idx={}
    def sid(s):
        k=repr(s)
        if k not in idx: idx[k]=len(strats); strats.append(s)
        return idx[k]
    P=dict(init=[sid(s) for s in pack.initial_strats], inf=[sid(s) for s in pack.inferral_strats], exp=[[sid(s) for s in ss] for ss in pack.expansion_strats], ver=[sid(s) for s in pack.ver_strats], sym=[sid(s) for s in pack.symmetries])
    inp.append("U "+"".join("1" if e else "0" for e in TC.U["empty"]))
    for k,s in enumerate(strats):
        for x in range(n):
            c=TC(x); outs=[]
            if isinstance(s, StrategyFactory):
                for it in s(c):
                    try: r = it(c) if isinstance(it, AbstractStrategy) else it
                    except StrategyDoesNotApply: continue
                    outs.append(ruleout(r))
            else:
                try: outs.append(ruleout(s(c)))
                except StrategyDoesNotApply: pass
            if outs: inp.append(f"A {k} {x} "+";".join(outs))
    j=lambda l: ",".join(map(str,l)) if l else "-"
    inp.append(f"P {j(P['init'])} {j(P['inf'])} {';'.join(j(e) for e in P['exp']) if P['exp'] else '-'} {j(P['ver'])} {j(P['sym'])} {int(ev)}")
    K=rnd.choice([1,2,3,5,1000]); inp.append(f"R 0 {K} {int(IT)}")
    log=[]
    class LDB(RuleDB):
        def add(self,start,ends,rule):
            log.append(f"E{start}>{list(ends)}{'v' if isinstance(rule.strategy, VerificationStrategy) else ''}{'t' if rule.is_two_way() else ''}"); return super().add(start,ends,rule)
    s=CombinatorialSpecificationSearcher(TC(0),pack,ruledb=LDB(),expand_verified=ev); logzero.loglevel(logging.ERROR)
    npk=0; bs=[]; more=True
    while more:
        for _ in range(K):
            try: wp=next(s.classqueue)
            except StopIteration: more=False; break
            npk+=1
            if s.expand_verified or not s.ruledb.is_verified(wp.label):
                s._expand(s.classdb.get_class(wp.label), wp.label, wp.strategies, wp.inferral)
        bs.append(int(s.ruledb.has_specification()))
    db=s.classdb; nl=len(db.label_to_info)
    keys=lambda d: sorted([k[0]]+list(k[1]) for k in d)
    part=[next(b for b in range(nl) if s.ruledb.equivdb.equivalent(a,b)) for a in range(nl)]
    exp.append(f"spec={bs} packets={npk} classes={[db.get_class(l).i for l in range(nl)]} empt={[2 if e is None else int(e) for e in db.empty_list]} rules={keys(s.ruledb.rule_to_strategy)} eqv={keys(s.ruledb.eqv_rule_to_strategy)} ver={[int(s.ruledb.is_verified(l)) for l in range(nl)]} part={part} tried={sorted(s.tried_to_verify)} sym={sorted(s.symmetry_expanded)} inf={sorted(s.inferral_expanded)} ign={sorted(s.classqueue.ignore)} | {' '.join(log)}")
open("/tmp/leanproto/e_in.txt","w").write("\n".join(inp)+"\n"); open("/tmp/leanproto/e_exp.txt","w").write("\n".join(exp)+"\n")
