import logzero, logging, sys
logzero.loglevel(logging.ERROR)
sys.path.insert(0, "/repo")
from comb_spec_searcher import *
from comb_spec_searcher.rule_db import RuleDBForgetStrategy, RuleDB, RuleDBForest
from comb_spec_searcher.strategies.strategy import VerificationStrategy
from example import AvoidingWithPrefix, pack
import traceback; logzero.loglevel(logging.ERROR)
class SomeVer(VerificationStrategy):
    def __init__(self, pref): self.pref=pref; super().__init__()
    def verified(self, c): return (not c.just_prefix) and c.prefix==self.pref
    def formal_step(self): return "ver "+self.pref
    @classmethod
    def from_dict(cls,d): return cls(d["pref"])
    def to_jsonable(self): d=super().to_jsonable(); d["pref"]=self.pref; return d
    def get_terms(self, c, n):
        from collections import Counter
        return Counter({(): sum(1 for _ in c.objects_of_size(n))})
for pref in ["a","b","ab","ba"]:
  for P in (["aa"],["aba"],["abb","ba"]):
    for DB in (RuleDB, RuleDBForgetStrategy, RuleDBForest):
        ep = pack.add_verification(SomeVer(pref))
        s = CombinatorialSpecificationSearcher(AvoidingWithPrefix("",P,"ab"), ep, ruledb=DB())
        try:
            spec = s.auto_search()
            print(pref,P,DB.__name__, [spec.count_objects_of_size(i) for i in range(7)])
        except Exception as e:
            tb = traceback.extract_tb(e.__traceback__)[-1]
            print(pref,P,DB.__name__,"RAISED",type(e).__name__,str(e)[:60].replace("\n"," "),"at",tb.filename.split("/")[-1],tb.lineno)
