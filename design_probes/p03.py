import sys, random, itertools
sys.path.insert(0,"/repo")
from comb_spec_searcher.rule_db.forest import TableMethod
from comb_spec_searcher.typing import ForestRuleKey, RuleBucket
INF=None
def lfp(rules, ncls):
    G = max([abs(s) for r in rules for s in r[2]]+[1])
    B = (ncls+1)*G + G + 2
    f=[0]*ncls
    ch=True
    while ch:
        ch=False
        for p,cs,ss in rules:
            v = min([f[c]+s for c,s in zip(cs,ss)]+[B])
            v = max(0,min(v,B))
            if v>f[p]: f[p]=v; ch=True
    # gap
    vals=sorted(set(f)|{0})
    cut=None
    for a,b in zip(vals,vals[1:]):
        if b-a>G: cut=a; break
    return {i:(None if cut is not None and v>cut else v) for i,v in enumerate(f) if v!=0}
def run(seed):
    rnd=random.Random(seed)
    n=rnd.randint(1,6); m=rnd.randint(1,9); S=rnd.choice([1,2,3])
    rules=[]
    for _ in range(m):
        p=rnd.randrange(n); k=rnd.choice([0,1,1,2,2,3])
        cs=tuple(rnd.randrange(n) for _ in range(k)); ss=tuple(rnd.randint(-S,S) for _ in range(k))
        rules.append((p,cs,ss))
    tb=TableMethod()
    for i,(p,cs,ss) in enumerate(rules):
        tb.add_rule_key(ForestRuleKey(p,cs,ss,RuleBucket.NORMAL))
        exp=lfp(rules[:i+1],n)
        got=tb.function
        if got!=exp:
            return (seed,rules[:i+1],got,exp)
bad=0
for s in range(int(sys.argv[1])):
    r=run(s)
    if r: 
        bad+=1
        if bad<4: print(r)
print("bad",bad)
