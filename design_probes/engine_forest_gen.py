import sys, random, logging
sys.path.insert(0,"/tmp/probe")
from tu import *
import logzero
from comb_spec_searcher.rule_db import RuleDB, RuleDBForest
from comb_spec_searcher.strategies.strategy import CartesianProductStrategy
def flags(st): return "".join("1" if b else "0" for b in (st.ignore_parent, st.inferrable, st.possibly_empty, st.workable))
def ruleout(rule):
    st=rule.strategy
    return f"{rule.comb_class.i}:{','.join(str(c.i) for c in rule.children)}:{flags(st)}:{int(st.is_two_way(rule.comb_class))}:{int(isinstance(st, VerificationStrategy))}:{int(isinstance(st, CartesianProductStrategy))}"
inp=[]; exp=[]
rnd=random.Random(int(sys.argv[2]))
for t in range(int(sys.argv[1])):
    n=rnd.randint(2,9); TC.U=gen_universe(rnd,n); pack=gen_pack(rnd); ev=rnd.random()<0.3
    strats=[]; idx={}
    def sid(s):
        k=repr(s)
        if k not in idx: idx[k]=len(strats); strats.append(s)
        return idx[k]
    P=dict(init=[sid(s) for s in pack.initial_strats], inf=[sid(s) for s in pack.inferral_strats], exp=[[sid(s) for s in ss] for ss in pack.expansion_strats], ver=[sid(s) for s in pack.ver_strats], sym=[sid(s) for s in pack.symmetries])
    inp.append("U "+"".join("1" if e else "0" for e in TC.U["empty"]))
    for k,s in enumerate(strats):
        for x in range(n):
            c=TC(x); outs=[]
            if isinstance(s, StrategyFactory):
                for it in s(c):
                    try: r = it(c) if isinstance(it, AbstractStrategy) else it
                    except StrategyDoesNotApply: continue
                    outs.append(ruleout(r))
            else:
                try: outs.append(ruleout(s(c)))
                except StrategyDoesNotApply: pass
            if outs: inp.append(f"A {k} {x} "+";".join(outs))
    j=lambda l: ",".join(map(str,l)) if l else "-"
    inp.append(f"P {j(P['init'])} {j(P['inf'])} {';'.join(j(e) for e in P['exp']) if P['exp'] else '-'} {j(P['ver'])} {j(P['sym'])} {int(ev)}")
    rev=rnd.random()<0.7; inp.append("M "+",".join(map(str,TC.U["minsize"]))+f" {int(rev)}"); inp.append("R 0")
    log=[]
    from comb_spec_searcher.typing import RuleBucket
    BK={RuleBucket.VERIFICATION:0,RuleBucket.EQUIV:1,RuleBucket.NORMAL:2,RuleBucket.REVERSE:3}
    rdb=RuleDBForest(reverse=rev)
    orig_add=rdb.table_method.add_rule_key
    def logged(k):
        log.append(f"K{k.parent}>{list(k.children)}{list(k.shifts)}b{BK[k.bucket]}"); return orig_add(k)
    rdb.table_method.add_rule_key=logged
    s=CombinatorialSpecificationSearcher(TC(0),pack,ruledb=rdb,expand_verified=ev); logzero.loglevel(logging.ERROR)
    npk=0
    for wp in s.classqueue:
        npk+=1
        if s.expand_verified or not s.ruledb.is_verified(wp.label):
            s._expand(s.classdb.get_class(wp.label), wp.label, wp.strategies, wp.inferral)
    db=s.classdb; nl=len(db.label_to_info)
    f=s.ruledb.table_method.function
    val=["inf" if (l in f and f[l] is None) else str(f.get(l,0)) for l in range(nl)]
    exp.append(f"packets={npk} classes={[db.get_class(l).i for l in range(nl)]} empt={[2 if e is None else int(e) for e in db.empty_list]} val=[{', '.join(val)}] tried={sorted(s.tried_to_verify)} sym={sorted(s.symmetry_expanded)} inf={sorted(s.inferral_expanded)} ign={sorted(s.classqueue.ignore)} | {' '.join(log)}")
open("/tmp/leanproto/e_in.txt","w").write("\n".join(inp)+"\n"); open("/tmp/leanproto/e_exp.txt","w").write("\n".join(exp)+"\n")
