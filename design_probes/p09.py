import sys, logging, itertools, json, traceback
sys.path.insert(0,"/tmp/probe")
from pw import *
import logzero; logzero.loglevel(logging.ERROR)
from comb_spec_searcher.utils import equal_counters
from comb_spec_searcher.strategies.rule import *

def child_params(c, mode, child_prefix):
    """return (child params tuple, mapping parent->child)"""
    ps = list(c.params); mapping = {}; out = []
    byletter = {}
    for i,(n,l) in enumerate(ps):
        if "drop" in mode and l in c.patterns and l not in child_prefix:
            continue
        if "merge" in mode and l in byletter:
            mapping[n] = byletter[l]; continue
        cn = ("j_%d" % len(out)) if "rename" in mode else n
        byletter[l] = cn; out.append((cn,l)); mapping[n] = cn
    return tuple(out), mapping

class ExpandM(Expand):
    def __init__(self, mode=""): self.mode = mode; super().__init__()
    def _kids(self, c):
        res = []
        for pre, jp in [(c.prefix, True)] + [(c.prefix+a, False) for a in c.alphabet]:
            cp, m = child_params(c, self.mode, pre)
            res.append((PW(pre, c.patterns, c.alphabet, jp, cp), m))
        return res
    def decomposition_function(self, c):
        if c.just_prefix: return None
        return tuple(k for k,_ in self._kids(c))
    def extra_parameters(self, c, children=None):
        return tuple(m for _,m in self._kids(c))
class PeelM(Peel):
    def __init__(self, mode=""): self.mode = mode; super().__init__()
    def _kids(self, c):
        s = self.safe(c); res=[]
        for pre, jp in [(c.prefix[:s], True), (c.prefix[s:], False)]:
            cp, m = child_params(c, self.mode, pre)
            res.append((PW(pre, c.patterns, c.alphabet, jp, cp), m))
        return res
    def decomposition_function(self, c):
        if c.just_prefix or self.safe(c) <= 0: return None
        return tuple(k for k,_ in self._kids(c))
    def extra_parameters(self, c, children=None):
        return tuple(m for _,m in self._kids(c))

def forms(rule):
    yield "plain", rule
    if rule.is_equivalence():
        try: yield "equiv", rule.to_equivalence_rule()
        except Exception as e: yield "equiv-ERR "+repr(e)[:60], None
    for i in range(len(rule.children)):
        try:
            r = rule.to_reverse_rule(i); yield f"rev{i}", r
            if r.is_equivalence():
                yield f"rev{i}-equiv", r.to_equivalence_rule()
        except Exception as e: yield f"rev{i}-ERR "+repr(e)[:60], None
if __name__=='__main__':
    N=5
    if __name__!="__main__": N=0
    stats = Counter()
    for mode in ["", "rename", "merge", "merge rename", "drop", "drop merge rename"]:
      for params in ([], [("k_0","a")], [("k_0","a"),("k_1","b")], [("k_0","a"),("k_1","a")], [("k_0","a"),("k_1","a"),("k_2","b")]):
        for P in (["aa"],["aba","bb"],["ab"],["a"],["b","aa"]):
          for prefix in ("","a","b","ab","ba","bab"):
            c = PW(prefix,P,"ab",False,params)
            if c.is_empty(): continue
            for S in (ExpandM(mode), PeelM(mode)):
                try: rule = S(c)
                except StrategyDoesNotApply: continue
                for name, r in forms(rule):
                    if r is None: stats[("formerr",name)]+=1; print(mode,params,P,prefix,type(S).__name__,name); continue
                    if r.comb_class.is_empty(): continue
                    r.subterms = tuple(ch.get_terms for ch in r.children)
                    try:
                        for n in range(N+1):
                            got = r.get_terms(n); exp = r.comb_class.get_terms(n)
                            if not equal_counters(got, exp):
                                stats["MISMATCH"]+=1
                                print("MISMATCH",mode,params,P,repr(prefix),type(S).__name__,name,"n=",n,dict(got),dict(exp)); break
                        else: stats["ok "+name.split('-')[0][:3]+('-equiv' if 'equiv' in name else '')]+=1
                    except Exception as e:
                        tb = traceback.extract_tb(e.__traceback__)[-1]
                        stats[("EXC",type(e).__name__, tb.filename.split('/')[-1], tb.lineno)]+=1
                        if stats[("EXC",type(e).__name__, tb.filename.split('/')[-1], tb.lineno)]<3:
                            print("EXC",mode,params,P,repr(prefix),type(S).__name__,name,type(e).__name__,str(e)[:80],tb.filename.split('/')[-1],tb.lineno)
    for k,v in sorted(stats.items(), key=str): print(k,v)
