import logzero, logging, sys
logzero.loglevel(logging.ERROR)
sys.path.insert(0, "/repo"); sys.path.insert(0, "/tmp/probe")
from comb_spec_searcher import *
from comb_spec_searcher.exception import *
from example import AvoidingWithPrefix
from p13b_defs import p2
itp = p2.make_iterative()
for P in (["aa"], ["aa","aab"], ["a"], ["a","ab"]):
    s = CombinatorialSpecificationSearcher(AvoidingWithPrefix("",P,"ab"), itp)
    try:
        spec = s.auto_search()
        print(P, "found", [spec.count_objects_of_size(i) for i in range(6)], s.start_label, s.ruledb.equivdb[s.start_label])
    except Exception as e:
        print(P, "RAISED", type(e).__name__, s.start_label, s.ruledb.equivdb[s.start_label])
