import sys, random
sys.path.insert(0,"/repo")
from comb_spec_searcher.class_queue import DefaultQueue
from comb_spec_searcher.exception import NoMoreClassesToExpandError
class P: pass
def showq(q): return f"W{list(q.working)} N{[(a,b) for a,b in q.next_level.items()]} C{[list(d) for d in q.curr_level]} I{sorted(q.ignore)} S{list(q.queue_sizes)}"
def showwp(wp,p):
    if wp.inferral: return f"{wp.label}:inf"
    s=wp.strategies[0]
    return f"{wp.label}:{s}"
inp=[];exp=[]
rnd=random.Random(int(sys.argv[2]))
for t in range(int(sys.argv[1])):
    p=P(); ni=rnd.randint(0,2); nn=rnd.randint(0,2); ne=rnd.randint(0,3)
    sizes=[rnd.randint(0,2) for _ in range(ne)]
    p.inferral_strats=[f"inf{i}" for i in range(ni)]; p.initial_strats=[f"init:{i}" for i in range(nn)]
    p.expansion_strats=[[f"exp:{j}:{i}" for i in range(sizes[j])] for j in range(ne)]
    q=DefaultQueue(p); n=rnd.randint(1,5)
    inp.append(f"pack {ni} {nn} {','.join(map(str,sizes)) if sizes else '-'}"); exp.append("ok")
    for _ in range(rnd.randint(1,40)):
        op=rnd.choice(["add","add","next","next","next","stop","ver","ninf","level"]); l=rnd.randrange(n)
        if op=="add": q.add(l); inp.append(f"add {l}"); exp.append(showq(q))
        elif op=="stop": q.set_stop_yielding(l); inp.append(f"stop {l}"); exp.append(showq(q))
        elif op=="ver": q.set_verified(l); inp.append(f"stop {l}"); exp.append(showq(q))
        elif op=="ninf": q.set_not_inferrable(l); inp.append(f"ninf {l}"); exp.append(showq(q))
        elif op=="next":
            inp.append("next")
            try: wp=next(q); exp.append(showwp(wp,p)+" "+showq(q))
            except StopIteration: exp.append("stop "+showq(q))
        else:
            inp.append("level"); out=[]
            try:
                for wp in q.do_level(): out.append(showwp(wp,p))
            except NoMoreClassesToExpandError: out.append("nomore")
            exp.append(" ".join(out)+" | "+showq(q))
open("/tmp/leanproto/q_in.txt","w").write("\n".join(inp)+"\n"); open("/tmp/leanproto/q_exp.txt","w").write("\n".join(exp)+"\n")
