import sys, logging, itertools, traceback
sys.path.insert(0,"/tmp/probe")
from pw import *
import logzero; logzero.loglevel(logging.ERROR)
from comb_spec_searcher.rule_db import *
from comb_spec_searcher.utils import equal_counters
class PrefVer(VerificationStrategy):
    def __init__(self, prefs): self.prefs=tuple(prefs); super().__init__()
    def verified(self, c): return (not c.just_prefix) and c.prefix in self.prefs and not c.is_empty()
    def formal_step(self): return "ver "+",".join(self.prefs)
    @classmethod
    def from_dict(cls,d): return cls(d["prefs"])
    def to_jsonable(self): d=super().to_jsonable(); d["prefs"]=list(self.prefs); return d
    def pack(self, c): return ppack
    def __repr__(self): return f"PrefVer({self.prefs})"
bad=0; tot=0
for prefs in (["a"],["b"],["a","b"],["ab","ba"],["aa","b"],["","a"],["ab"],["a","ab","b"]):
  for P in (["aa"],["aba","bb"],["bab","aa"],["aab"],["abab"]):
    for DB in (RuleDB, RuleDBForgetStrategy, RuleDBForest):
        root=PW("",P,"ab"); pk=ppack.add_verification(PrefVer(prefs), apply_first=True)
        s=CombinatorialSpecificationSearcher(root, pk, ruledb=DB())
        try:
            spec=s.auto_search(); logzero.loglevel(logging.ERROR)
        except Exception as e:
            logzero.loglevel(logging.ERROR); print("SEARCH EXC",prefs,P,DB.__name__,type(e).__name__,str(e)[:60].replace("\n"," ")); continue
        nver=len(list(spec.unexpanded_verified_classes()))
        if nver==0: continue
        tot+=1
        before=spec.to_jsonable()
        try:
            ns=spec.expand_verified(); logzero.loglevel(logging.ERROR)
            ok=all(equal_counters(ns.get_terms(n), root.get_terms(n)) for n in range(8))
            left=len(list(ns.unexpanded_verified_classes()))
            shared=any(r1 is r2 for r1 in spec for r2 in ns)
            unchanged = spec.to_jsonable()==before
            if not ok or left or shared or not unchanged or not ns.sanity_check(4):
                bad+=1; print("BAD",prefs,P,DB.__name__,"ok",ok,"left",left,"shared",shared,"unchanged",unchanged)
        except Exception as e:
            logzero.loglevel(logging.ERROR)
            tb=traceback.extract_tb(e.__traceback__)[-1]
            bad+=1; print("EXC",prefs,P,DB.__name__,nver,type(e).__name__,str(e)[:80].replace("\n"," "),tb.filename.split("/")[-1],tb.lineno)
print("tot",tot,"bad",bad)
