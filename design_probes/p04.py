import sys, logging, random, traceback
sys.path.insert(0,"/tmp/probe")
from tu import *
import logzero
from comb_spec_searcher.rule_db import *
from comb_spec_searcher.rule_db.base import RuleDBBase
def pack_rules_for(pack, c):
    """all (parent id, children ids) that some pack strategy yields when applied to class c"""
    out = set()
    for s in pack:
        items = s(c) if isinstance(s, StrategyFactory) else [s]
        if isinstance(s, StrategyFactory): items = list(items)
        for x in items:
            try:
                r = x(c) if isinstance(x, AbstractStrategy) else x
                out.add((r.comb_class.i, tuple(k.i for k in r.children)))
            except StrategyDoesNotApply: pass
    return out
def run(seed, DB):
    rnd = random.Random(seed); n = rnd.randint(2, 9)
    TC.U = gen_universe(rnd, n); pack = gen_pack(rnd)
    log = []
    class LDB(DB):
        def add(self, start, ends, rule):
            log.append((start, tuple(ends), rule)); return super().add(start, ends, rule)
    s = CombinatorialSpecificationSearcher(TC(0), pack, ruledb=LDB()); logzero.loglevel(logging.ERROR)
    expanded_with = {}
    try:
        try:
            rules = s._auto_search_rules()
            if rules is not None: list(rules)
        except SpecificationNotFound: pass
    except Exception as e:
        tb = traceback.extract_tb(e.__traceback__)[-1]
        return ("EXC", type(e).__name__, str(e)[:70].replace("\n"," "), tb.filename.split("/")[-1], tb.lineno)
    db = s.classdb
    # labels bijective
    classes = [db.get_class(l) for l in range(len(db.label_to_info))]
    if len(set(c.i for c in classes)) != len(classes): return ("LABELS not injective",)
    for start, ends, rule in log:
        if db.get_class(start) != rule.comb_class: return ("start label mismatch", start, rule.comb_class)
        if tuple(db.get_label(c) for c in rule.children) != ends: return ("ends mismatch",)
        # genuine: some strategy of the pack (or empty strat) applied to *some class* yields this rule
        key = (rule.comb_class.i, tuple(k.i for k in rule.children))
        if not rule.children and rule.comb_class.is_empty(): continue
        ok = any(key in pack_rules_for(pack, TC(j)) for j in range(len(TC.U["empty"])))
        if not ok: return ("not genuine", key)
    if isinstance(s.ruledb, RuleDBBase):
        for (st, en) in s.ruledb:
            pass
    return None
bad = Counter = __import__("collections").Counter()
for seed in range(int(sys.argv[1])):
    for DB in (RuleDB, RuleDBForgetStrategy, RuleDBForest):
        r = run(seed, DB)
        if r:
            bad[(DB.__name__,)+r[:2]+r[3:]] += 1
            if bad[(DB.__name__,)+r[:2]+r[3:]] <= 2: print(seed, DB.__name__, r)
for k, v in bad.items(): print(v, k)
