import sys, logging, itertools, json, traceback
sys.path.insert(0,"/tmp/probe")
from pw import *
from p09 import ExpandM, PeelM, forms
import logzero; logzero.loglevel(logging.ERROR)
import sympy
x = sympy.var("x")
N=5
def true_series(c, N):
    vs = [sympy.var(k) for k in c.extra_parameters]
    s = 0
    for n in range(N+1):
        for p,v in c.get_terms(n).items():
            m = x**n
            for var,e in zip(vs,p): m *= var**e
            s += v*m
    return s
def trunc(expr, N):
    expr = sympy.expand(expr)
    return sum(t for t in sympy.Add.make_args(expr) if sympy.degree(t, x) <= N) if expr != 0 else 0
stats=Counter()
for mode in ["", "rename", "merge", "merge rename", "drop"]:
  for params in ([], [("k_0","a")], [("k_0","a"),("k_1","a")], [("k_0","a"),("k_1","a"),("k_2","b")]):
    for P in (["aa"],["aba","bb"],["b","aa"]):
      for prefix in ("","a","ab","bab"):
        c = PW(prefix,P,"ab",False,params)
        if c.is_empty(): continue
        for S in (ExpandM(mode), PeelM(mode)):
            try: rule = S(c)
            except StrategyDoesNotApply: continue
            for name, r in forms(rule):
                if r is None or r.comb_class.is_empty(): continue
                classes = (r.comb_class,)+tuple(r.children)
                lab = {}
                def get_function(cc):
                    i = lab.setdefault(cc, len(lab)); return sympy.Function(f"F_{i}")(x, *[sympy.var(k) for k in cc.extra_parameters])
                try:
                    eq = r.get_equation(get_function)
                except NotImplementedError: stats["notimpl "+name[:3]]+=1; continue
                except Exception as e:
                    stats[("EXC",type(e).__name__)]+=1; print("EXC",mode,params,P,prefix,type(S).__name__,name,repr(e)[:100]); continue
                # substitute true series for each function
                def repl(expr):
                    for cc,i in lab.items():
                        ts = true_series(cc, N+3)
                        cvars = [sympy.var(k) for k in cc.extra_parameters]
                        F = sympy.Function(f"F_{i}")
                        expr = expr.replace(F, sympy.Lambda((x,*cvars), ts)) if cvars else expr.replace(F, sympy.Lambda(x, ts))
                    return expr
                if isinstance(eq, bool): stats["booleq"]+=1; continue
                l, rr = repl(eq.lhs), repl(eq.rhs)
                try:
                    d = sympy.expand(sympy.series(sympy.together(l-rr), x, 0, N+1).removeO()) if not (l-rr).is_polynomial() else trunc(l-rr, N)
                except Exception as e:
                    stats["series-fail"]+=1; continue
                if sympy.simplify(d) != 0:
                    stats["BAD "+name[:3]]+=1
                    if stats["BAD "+name[:3]]<4: print("BAD",mode,params,P,repr(prefix),type(S).__name__,name,eq, "diff", d)
                else: stats["ok "+name[:3]]+=1
for k,v in sorted(stats.items(), key=str): print(k,v)
