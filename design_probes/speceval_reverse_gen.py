import sys, logging, random
sys.path.insert(0,"/tmp/probe")
from pw import *
from p01b import Reduce, Swap
from prev import ParentExpansion, Known
import logzero; logzero.loglevel(logging.ERROR)
from comb_spec_searcher.rule_db import *
from comb_spec_searcher.strategies.constructor import DisjointUnion, Complement, CartesianProduct, Quotient
from comb_spec_searcher.strategies.rule import Rule, VerificationRule
# record constructor arguments from outside
for cls, has_idx in ((DisjointUnion,False),(CartesianProduct,False),(Complement,True),(Quotient,True)):
    orig = cls.__init__
    def make(orig, has_idx):
        def init(self, parent, children, *a, **kw):
            children = tuple(children)
            if has_idx:
                idx = a[0] if a else kw["idx"]; ep = a[1] if len(a)>1 else kw.get("extra_parameters")
            else:
                idx = 0; ep = a[0] if a else kw.get("extra_parameters")
            self._verif_args = (parent, children, idx, ep)
            orig(self, parent, children, *a, **kw)
        return init
    cls.__init__ = make(orig, has_idx)
def st(t): return "/".join(".".join(map(str,k))+"="+str(v) for k,v in sorted(t.items()) if v!=0)
def cdesc(c,e): return f"C={','.join(c.extra_parameters)};E={','.join(a+':'+b for a,b in (e or {}).items())};MIN={c.minimum_size_of_object()};MAX={c.minimum_size_of_object() if c.is_atom() else '-'}"
KIND={DisjointUnion:"union",CartesianProduct:"product",Complement:"complement",Quotient:"quotient"}
def skeleton(spec, N, cap):
    idx={}
    def ci(c):
        if c not in idx: idx[c]=len(idx)
        return idx[c]
    ci(spec.root); recs=[]
    for rule in list(spec):
        for ch in rule.children: spec.get_rule(ch)
    for cc, rule in list(spec.rules_dict.items()):
        c=ci(cc)
        if isinstance(rule, VerificationRule):
            recs.append(f"c={c}&k=ver&T="+"+".join(f"{n}@{st(rule.get_terms(n))}" for n in range(cap+1)))
        else:
            con=rule.constructor; parent,children,i,ep=con._verif_args
            ep = ep if ep is not None else tuple({} for _ in children)
            recs.append(f"c={c}&k={KIND[type(con)]}&P={','.join(parent.extra_parameters)}&IDX={i}&sub={','.join(str(ci(x)) for x in rule.children)}&sh={','.join(map(str,rule.shifts()))}&CH="+"~".join(cdesc(ch,e) for ch,e in zip(children,ep)))
    return idx, "#".join(recs)
inp=[]; exp=[]; kinds=Counter(); N=6; CAP=10
for params in ([], [("k_0","a")], [("k_0","a"),("k_1","b")]):
  for P in (["bb"],["bab","bb"],["ba"],["bbb"]):
    pack=StrategyPack(initial_strats=[Peel()], inferral_strats=[], expansion_strats=[[ParentExpansion()]], ver_strats=[PAtom(), Known([""])], name="rev")
    root=PW("b",P,"ab",False,params)
    s_=CombinatorialSpecificationSearcher(root,pack,ruledb=RuleDBForest(reverse=True)); spec=s_.auto_search(); logzero.loglevel(logging.ERROR)
    idx,sk=skeleton(spec,N,CAP)
    for r in spec: kinds[type(r).__name__+":"+(type(r.constructor).__name__ if isinstance(r,Rule) else "-")]+=1
    inp.append(f"{len(idx)} {N} {CAP} {sk}")
    out=[]
    for c,i in sorted(idx.items(), key=lambda x:x[1]):
        rule=spec.rules_dict.get(c)
        out.append(f"{i}:"+"|".join(st(rule.get_terms(n)) for n in range(N+1)) if rule is not None else f"{i}:")
    exp.append("ok "+" ".join(out))
open("/tmp/leanproto/s_in.txt","w").write("\n".join(inp)+"\n"); open("/tmp/leanproto/s_exp.txt","w").write("\n".join(exp)+"\n")
print(kinds)
