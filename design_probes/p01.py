import sys, logging, itertools, json
sys.path.insert(0,"/tmp/probe")
from pw import *
import logzero; logzero.loglevel(logging.ERROR)
from comb_spec_searcher.rule_db import *
from comb_spec_searcher.utils import equal_counters
import traceback
for params in ([], [("k_0","a")], [("k_0","a"),("k_1","b")]):
  for P in (["aa"],["aba","bb"],["ab"]):
    for DB in (RuleDB, RuleDBForgetStrategy, RuleDBForest):
      root = PW("",P,"ab",False,params)
      s = CombinatorialSpecificationSearcher(root, ppack, ruledb=DB()); logzero.loglevel(logging.ERROR)
      try:
        spec = s.auto_search(); logzero.loglevel(logging.ERROR)
        ok = all(equal_counters(spec.get_terms(n), root.get_terms(n)) for n in range(7))
        objs_ok = all({k:sorted(v) for k,v in spec.get_objects(n).items() if v} == {k:sorted(v) for k,v in root.get_objects(n).items()} for n in range(6))
        spec2 = CombinatorialSpecification.from_dict(json.loads(json.dumps(spec.to_jsonable())))
        san = spec.sanity_check(4)
        print(len(params),P,DB.__name__,"counts",ok,"objs",objs_ok,"json_eq",spec2==spec,"sanity",san, "rules", sorted(set(type(r).__name__ for r in spec)))
      except Exception as e:
        tb = traceback.extract_tb(e.__traceback__)[-1]
        print(len(params),P,DB.__name__,"RAISED",type(e).__name__,str(e)[:80].replace("\n"," "),"at",tb.filename.split("/")[-1],tb.lineno)
