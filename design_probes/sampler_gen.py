import sys, logging
sys.path.insert(0,"/tmp/probe")
from pw import *
from p09 import ExpandM, PeelM
from comb_spec_searcher.strategies.constructor import CartesianProduct
import logzero; logzero.loglevel(logging.ERROR)
inp=[]; exp=[]
for mode in ["", "rename", "merge", "merge rename", "drop"]:
  for params in ([], [("k_0","a")], [("k_0","a"),("k_1","b")], [("k_0","a"),("k_1","a")], [("k_0","a"),("k_1","a"),("k_2","b")]):
    for P in (["aa"],["aba","bb"],["ab"],["b","aa"]):
      for prefix in ("a","b","ab","ba","bab","abab"):
        c = PW(prefix,P,"ab",False,params)
        if c.is_empty(): continue
        try: rule = PeelM(mode)(c)
        except StrategyDoesNotApply: continue
        con = rule.constructor
        keys = con.parent_parameters
        for n in range(0,7):
          for pv in c.possible_parameters(n):
            if any(v>n for v in pv.values()): continue
            line = f"K={','.join(keys)}|MS={','.join(str(con.minimum_sizes[k]) for k in keys)}|P={','.join(str(n if k=='n' else pv[k]) for k in keys)}"
            for mn,mx,em in zip(con.min_child_sizes, con.max_child_sizes, con.extra_parameters):
                line += "|C;MIN="+",".join(str(mn[k]) for k in keys)+";MAX="+",".join(str(mx[k]) if k in mx else "-" for k in keys)+";E="+",".join(a+":"+b for a,b in em.items())
            out=[]
            try:
                for cp in con._valid_compositions(n, **dict(pv)):
                    ep = con.get_extra_parameters(cp)
                    out.append("skip" if ep is None else "&".join(",".join(f"{k}={v}" for k,v in e.items()) for e in ep))
            except AssertionError: out=["assert"]
            inp.append(line); exp.append(" ".join(out))
open("/tmp/leanproto/p_in.txt","w").write("\n".join(inp)+"\n"); open("/tmp/leanproto/p_exp.txt","w").write("\n".join(exp)+"\n")
print(len(inp), sum(1 for e in exp if e))
