"""Parameterised words: AvoidingWithPrefix + statistics = number of occurrences of tracked letters."""
import sys
sys.path.insert(0, "/repo")
from collections import Counter, defaultdict
from itertools import product
from typing import Tuple
import sympy
from comb_spec_searcher import *
from comb_spec_searcher.strategies.strategy import VerificationStrategy
from comb_spec_searcher.exception import *

class W(str, CombinatorialObject):
    def size(self): return str.__len__(self)

class PW(CombinatorialClass):
    """words over alphabet starting with prefix avoiding patterns; params: dict name->letter counted"""
    def __init__(self, prefix, patterns, alphabet, just_prefix=False, params=()):
        self.alphabet = tuple(sorted(alphabet)); self.prefix = W(prefix)
        self.patterns = tuple(sorted(map(W, patterns))); self.just_prefix = just_prefix
        self.params = tuple(sorted(params))  # tuple of (name, letter)
    @property
    def extra_parameters(self): return tuple(n for n, _ in self.params)
    def is_empty(self): return any(p in self.prefix for p in self.patterns)
    def is_atom(self): return self.just_prefix
    def minimum_size_of_object(self): return len(self.prefix)
    def get_minimum_value(self, parameter):
        l = dict(self.params)[parameter]; return self.prefix.count(l)
    def get_parameters(self, obj): return tuple(obj.count(l) for _, l in self.params)
    def possible_parameters(self, n):
        for vals in product(range(n + 1), repeat=len(self.params)):
            yield dict(zip(self.extra_parameters, vals))
    def objects_of_size(self, size, **parameters):
        def gen():
            if self.just_prefix:
                if size == len(self.prefix) and not self.is_empty(): yield W(self.prefix)
                return
            if len(self.prefix) > size: return
            for letters in product(self.alphabet, repeat=size - len(self.prefix)):
                w = W(self.prefix + "".join(letters))
                if all(p not in w for p in self.patterns): yield w
        for w in gen():
            if not parameters or all(w.count(dict(self.params)[k]) == v for k, v in parameters.items()):
                yield w
    def to_jsonable(self):
        d = super().to_jsonable()
        d.update(prefix=self.prefix, patterns=self.patterns, alphabet=self.alphabet, just_prefix=int(self.just_prefix), params=[list(p) for p in self.params])
        return d
    @classmethod
    def from_dict(cls, d): return cls(d["prefix"], d["patterns"], d["alphabet"], bool(d["just_prefix"]), [tuple(p) for p in d["params"]])
    def __eq__(self, o): return isinstance(o, PW) and (self.alphabet, self.prefix, self.patterns, self.just_prefix, self.params) == (o.alphabet, o.prefix, o.patterns, o.just_prefix, o.params)
    def __hash__(self): return hash((self.alphabet, self.prefix, self.patterns, self.just_prefix, self.params))
    def __repr__(self): return f"PW({self.prefix!r},{self.patterns},{self.alphabet},{self.just_prefix},{self.params})"
    __str__ = __repr__

class Expand(DisjointUnionStrategy):
    def decomposition_function(self, c):
        if c.just_prefix: return None
        return (PW(c.prefix, c.patterns, c.alphabet, True, c.params),) + tuple(PW(c.prefix + a, c.patterns, c.alphabet, False, c.params) for a in c.alphabet)
    def extra_parameters(self, c, children=None):
        if children is None: children = self.decomposition_function(c)
        return tuple({k: k for k in c.extra_parameters} for _ in children)
    def formal_step(self): return "expand"
    def forward_map(self, c, w, children=None):
        if children is None: children = self.decomposition_function(c)
        if len(w) == len(c.prefix): return (w,) + (None,) * (len(children) - 1)
        for i, ch in enumerate(children[1:]):
            if w.startswith(ch.prefix): return (None,) * (i + 1) + (w,) + (None,) * (len(children) - i - 2)
    @classmethod
    def from_dict(cls, d): return cls(**d)
    def __repr__(self): return "Expand()"

class Peel(CartesianProductStrategy):
    """prefix -> atom(front) x rest ; the atom child keeps only params (renamed with suffix _f)"""
    def safe(self, c):
        m = max((len(p) for p in c.patterns), default=1); s = max(0, len(c.prefix) - m + 1)
        for i in range(s, len(c.prefix)):
            e = c.prefix[i:]
            if any(e == p[:len(e)] for p in c.patterns): break
            s = i + 1
        return s
    def decomposition_function(self, c):
        if c.just_prefix: return None
        s = self.safe(c)
        if s <= 0: return None
        return (PW(c.prefix[:s], c.patterns, c.alphabet, True, c.params), PW(c.prefix[s:], c.patterns, c.alphabet, False, c.params))
    def extra_parameters(self, c, children=None):
        if children is None: children = self.decomposition_function(c)
        return tuple({k: k for k in c.extra_parameters} for _ in children)
    def formal_step(self): return "peel"
    def backward_map(self, c, ws, children=None): yield W(ws[0] + ws[1])
    def forward_map(self, c, w, children=None):
        if children is None: children = self.decomposition_function(c)
        return W(children[0].prefix), W(w[len(children[0].prefix):])
    @classmethod
    def from_dict(cls, d): return cls(**d)
    def __repr__(self): return "Peel()"

class PAtom(VerificationStrategy):
    def __init__(self): super().__init__(ignore_parent=True)
    def verified(self, c): return c.just_prefix
    def formal_step(self): return "atom"
    def get_terms(self, c, n):
        return Counter([c.get_parameters(c.prefix)]) if n == len(c.prefix) and not c.is_empty() else Counter()
    def get_objects(self, c, n):
        r = defaultdict(list)
        if n == len(c.prefix) and not c.is_empty(): r[c.get_parameters(c.prefix)].append(W(c.prefix))
        return r
    def random_sample_object_of_size(self, c, n, **p): return W(c.prefix)
    def get_genf(self, c, funcs=None):
        x = sympy.var("x"); r = x ** len(c.prefix)
        for k, l in c.params: r *= sympy.var(k) ** c.prefix.count(l)
        return r
    def pack(self, c): raise InvalidOperationError("no pack")
    @classmethod
    def from_dict(cls, d): return cls()
    def to_jsonable(self):
        d = super().to_jsonable(); d.pop("ignore_parent"); return d
    def __repr__(self): return "PAtom()"

ppack = StrategyPack(initial_strats=[Peel()], inferral_strats=[], expansion_strats=[[Expand()]], ver_strats=[PAtom()], name="pw")
