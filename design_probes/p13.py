import logzero, logging, sys
logzero.loglevel(logging.ERROR)
sys.path.insert(0, "/repo")
from comb_spec_searcher import *
from comb_spec_searcher.bijection import ParallelSpecFinder, EqPathParallelSpecFinder
from comb_spec_searcher.strategies.strategy import DisjointUnionStrategy
from example import AvoidingWithPrefix, pack, ExpansionStrategy, RemoveFrontOfPrefix, Word

# An equivalence strategy that maps prefix "" class to an equal-enumeration class:
# swap alphabet letters (symmetry): a<->b on patterns+prefix
class Swap(SymmetryStrategy):
    def decomposition_function(self, c):
        if c.just_prefix: return None
        al = c.alphabet
        if len(al)!=2: return None
        t = str.maketrans(al[0]+al[1], al[1]+al[0])
        return (AvoidingWithPrefix(c.prefix.translate(t), [p.translate(t) for p in c.patterns], al, c.just_prefix),)
    def formal_step(self): return "swap"
    def forward_map(self, c, w, children=None):
        al=c.alphabet; t = str.maketrans(al[0]+al[1], al[1]+al[0]); return (Word(w.translate(t)),)
    def backward_map(self, c, ws, children=None):
        al=c.alphabet; t = str.maketrans(al[0]+al[1], al[1]+al[0]); yield Word(ws[0].translate(t))
    @classmethod
    def from_dict(cls,d): return cls()
    def __repr__(self): return "Swap()"
    def __str__(self): return "swap"
p2 = StrategyPack(initial_strats=[RemoveFrontOfPrefix()], inferral_strats=[], expansion_strats=[[ExpansionStrategy()]], ver_strats=[AtomStrategy()], name="x", symmetries=[Swap()])
import itertools
pats = [["aa"],["ab"],["bb"],["aab"],["abb"],["aba"],["ba"]]
for P1,P2 in itertools.product(pats,pats):
    s1 = CombinatorialSpecificationSearcher(AvoidingWithPrefix("",P1,"ab"), p2)
    s2 = CombinatorialSpecificationSearcher(AvoidingWithPrefix("",P2,"ab"), p2)
    try:
        r = ParallelSpecFinder(s1,s2).find()
        lab = (s1.start_label, s1.ruledb.equivdb[s1.start_label], s2.start_label, s2.ruledb.equivdb[s2.start_label])
        print(P1,P2,"->", "None" if r is None else "specs", lab)
    except Exception as e:
        lab = (s1.start_label, s1.ruledb.equivdb[s1.start_label], s2.start_label, s2.ruledb.equivdb[s2.start_label])
        print(P1,P2,"RAISED", type(e).__name__, str(e)[:80].replace("\n"," "), lab)
