import sys, logging, random, traceback, pickle, types
sys.path.insert(0,"/tmp/probe")
from pw import *
import logzero
from comb_spec_searcher.rule_db import *
import comb_spec_searcher.comb_spec_searcher as cssmod
from comb_spec_searcher.utils import equal_counters
def snapshot(s):
    db = s.classdb
    d = dict(classes=[repr(db.get_class(l)) for l in range(len(db.label_to_info))], empty=list(db.empty_list),
             tried=sorted(s.tried_to_verify), sym=sorted(s.symmetry_expanded), inf=sorted(s.inferral_expanded))
    r = s.ruledb
    if hasattr(r, "rule_to_strategy"):
        d["rules"] = sorted((k, repr(v) if not isinstance(r, RuleDBForgetStrategy) else "") for k, v in r.rule_to_strategy.items()) if not isinstance(r, RuleDBForgetStrategy) else sorted(r.rule_to_strategy)
        d["eqv"] = sorted(r.eqv_rule_to_strategy)
        d["ver"] = [r.is_verified(l) for l in range(len(db.label_to_info))]
    else:
        d["rules"] = sorted((k.parent,k.children,k.shifts,k.bucket.name) for k in r.table_method._rules)
        d["ver"] = [r.is_verified(l) for l in range(len(db.label_to_info))]
    q = s.classqueue
    d["queue"] = (list(q.working), sorted(q.next_level.items()), [list(x) for x in q.curr_level], sorted(q.ignore), list(q.queue_sizes), list(q.staging))
    return d
def step(s, k):
    """expand k work packets; return number actually done"""
    done = 0
    while done < k:
        try: wp = next(s.classqueue)
        except StopIteration: break
        if s.expand_verified or not s.ruledb.is_verified(wp.label):
            s._expand(s.classdb.get_class(wp.label), wp.label, wp.strategies, wp.inferral)
        done += 1
    return done
bad = 0; tot = 0
for P in (["aa"], ["aba","bb"], ["abab","bba"]):
  for DB in (RuleDB, RuleDBForgetStrategy, RuleDBForest):
    root = PW("", P, "ab")
    ref = CombinatorialSpecificationSearcher(root, ppack, ruledb=DB()); logzero.loglevel(logging.ERROR)
    total = step(ref, 10**6); final = snapshot(ref)
    for k in range(total + 1):
        s = CombinatorialSpecificationSearcher(root, ppack, ruledb=DB()); logzero.loglevel(logging.ERROR)
        step(s, k)
        try:
            s2 = pickle.loads(pickle.dumps(s))
        except Exception as e:
            bad += 1; print("PICKLE EXC", P, DB.__name__, k, repr(e)[:100]); break
        tot += 1
        if not (s2 == s): bad += 1; print("NOT EQUAL after pickle", P, DB.__name__, k)
        if snapshot(s2) != snapshot(s): bad += 1; print("SNAPSHOT differs", P, DB.__name__, k)
        step(s2, 10**6)
        if snapshot(s2) != final: bad += 1; print("CONTINUATION differs", P, DB.__name__, k)
        hs = s2.has_specification()
        if hs != ref.has_specification(): bad += 1; print("has_spec differs", P, DB.__name__, k)
print("pickle points", tot, "bad", bad)
# time limit
class FakeTime:
    def __init__(self, budget): self.t = 0.0; self.calls = 0; self.budget = budget
    def time(self):
        self.calls += 1
        self.t += 1.0
        return self.t
tl_tot = 0
for P in (["aa"], ["aba","bb"]):
  for DB in (RuleDB, RuleDBForest, RuleDBForgetStrategy):
    for limit in (0, 1, 2, 3, 5, 8, 13, 30, 60):
        root = PW("", P, "ab")
        s = CombinatorialSpecificationSearcher(root, ppack, ruledb=DB()); logzero.loglevel(logging.ERROR)
        ft = FakeTime(limit); cssmod.time = ft
        spec = None; tries = 0
        try:
            while spec is None and tries < 500:
                tries += 1
                try: spec = s.auto_search(max_expansion_time=limit)
                except cssmod.ExceededMaxtimeError: pass
                logzero.loglevel(logging.ERROR)
        except Exception as e:
            bad += 1; print("TL EXC", P, DB.__name__, limit, repr(e)[:100]); continue
        finally:
            import time as _t; cssmod.time = _t
        tl_tot += 1
        if spec is None: bad += 1; print("never found", P, DB.__name__, limit); continue
        if not all(equal_counters(spec.get_terms(n), root.get_terms(n)) for n in range(7)): bad += 1; print("WRONG COUNTS", P, DB.__name__, limit)
print("timelimit runs", tl_tot, "bad", bad)
