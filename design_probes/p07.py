import sys, logging, itertools, random, traceback
sys.path.insert(0,"/tmp/probe")
from pw import *
from p09 import ExpandM, PeelM, forms
import logzero; logzero.loglevel(logging.ERROR)
from comb_spec_searcher.rule_db import *
from comb_spec_searcher.strategies.rule import Rule, EquivalencePathRule, EquivalenceRule, ReverseRule
stats=Counter()
def check_rule(r, tag):
    if r.comb_class.is_empty(): return
    for n in range(6):
        for o in r.comb_class.objects_of_size(n):
            try:
                parts=r.forward_map(o)
            except NotImplementedError: stats["fwd notimpl "+tag]+=1; return
            except Exception as e:
                stats[("FWD EXC",tag,type(e).__name__)]+=1
                if stats[("FWD EXC",tag,type(e).__name__)]<3: print("FWD EXC",tag,r.comb_class,o,repr(e)[:80])
                return
            if len(parts)!=len(r.children): stats["ARITY "+tag]+=1; print("ARITY",tag,r.comb_class,o,parts); return
            for p,ch in zip(parts,r.children):
                if p is not None and p not in set(ch.objects_of_size(len(p))): stats["PART NOT IN CHILD "+tag]+=1; print("PART",tag,r.comb_class,o,p,ch); return
            try: back=list(r.backward_map(parts))
            except NotImplementedError: stats["bwd notimpl "+tag]+=1; return
            except Exception as e:
                stats[("BWD EXC",tag,type(e).__name__)]+=1
                if stats[("BWD EXC",tag,type(e).__name__)]<3: print("BWD EXC",tag,r.comb_class,o,parts,repr(e)[:80])
                return
            if back!=[o]: stats["ROUNDTRIP "+tag]+=1; print("ROUNDTRIP",tag,r.comb_class,o,parts,back); return
    stats["ok "+tag]+=1
for mode in ["", "merge rename"]:
  for params in ([], [("k_0","a")]):
    for P in (["aa"],["aba","bb"],["b","aa"],["a"],["ab","ba"]):
      for prefix in ("","a","ab","bab","b"):
        c = PW(prefix,P,"ab",False,params)
        if c.is_empty(): continue
        for S in (ExpandM(mode), PeelM(mode)):
            try: rule = S(c)
            except StrategyDoesNotApply: continue
            for name, r in forms(rule):
                if r is None: continue
                tag=name.rstrip("0123456789") if not name.startswith("rev") else ("rev-equiv" if "equiv" in name else "rev")
                check_rule(r, type(S).__name__[:4]+" "+tag)
# path rules from specs
for P in (["aba","bb"],["bab","aa"],["abab","bba"],["aab","ba"]):
    for DB in (RuleDB, RuleDBForest):
        s=CombinatorialSpecificationSearcher(PW("",P,"ab"), ppack, ruledb=DB()); spec=s.auto_search(); logzero.loglevel(logging.ERROR)
        for r in spec:
            if isinstance(r,(EquivalencePathRule,)): check_rule(r,"path")
            elif isinstance(r, Rule): check_rule(r,"specrule "+type(r).__name__)
for k,v in sorted(stats.items(), key=str): print(v,k)
