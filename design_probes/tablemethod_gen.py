import sys, random
sys.path.insert(0,"/repo")
from comb_spec_searcher.rule_db.forest import TableMethod
from comb_spec_searcher.typing import ForestRuleKey, RuleBucket
rnd=random.Random(int(sys.argv[2])); inp=[]; out=[]
for t in range(int(sys.argv[1])):
    n=rnd.randint(1,7); rules=[]; S=rnd.choice([1,2,3])
    for _ in range(rnd.randint(1,12)):
        k=rnd.choice([0,1,1,2,2,3]); rules.append((rnd.randrange(n),tuple(rnd.randrange(n) for _ in range(k)),tuple(rnd.randint(-S,S) for _ in range(k))))
    inp.append(f"{n} "+";".join(f"{p}|{','.join(map(str,cs))}|{','.join(map(str,ss))}" for p,cs,ss in rules))
    tb=TableMethod(); outs=[]
    for p,cs,ss in rules:
        tb.add_rule_key(ForestRuleKey(p,cs,ss,RuleBucket.NORMAL)); f=tb.function
        outs.append(" ".join("inf" if (c in f and f[c] is None) else str(f.get(c,0)) for c in range(n)))
    out.append(" ; ".join(outs)+" #agree")
open("/tmp/leanproto/tm_in.txt","w").write("\n".join(inp)+"\n"); open("/tmp/leanproto/tm_exp.txt","w").write("\n".join(out)+"\n")
