"""Adversarial probe of Isomorphism.check on synthetic context-free 'grammar' specifications."""
import sys, random, logging, itertools
sys.path.insert(0,"/repo")
import logzero
from collections import Counter, defaultdict
from comb_spec_searcher import *
from comb_spec_searcher.strategies.strategy import VerificationStrategy
from comb_spec_searcher.isomorphism import Isomorphism
from comb_spec_searcher.rule_db.forest import TableMethod
from comb_spec_searcher.typing import ForestRuleKey, RuleBucket
logzero.loglevel(logging.ERROR)
class Obj(CombinatorialObject):
    def __init__(s,n): s.n=n
    def __len__(s): return s.n
class G(CombinatorialClass):
    def __init__(self, tag, i): self.tag=tag; self.i=i
    @property
    def info(self): return GR[self.tag]
    def is_empty(self): return False
    def is_atom(self): return self.info["rules"][self.i][0]=="atom"
    def minimum_size_of_object(self): return self.info["min"][self.i]
    def objects_of_size(self, n, **kw):
        if self.is_atom() and n==self.minimum_size_of_object(): yield Obj(n)
    def to_jsonable(self): return {}
    @classmethod
    def from_dict(cls,d): raise NotImplementedError
    def __eq__(self,o): return isinstance(o,G) and (o.tag,o.i)==(self.tag,self.i)
    def __hash__(self): return hash((self.tag,self.i))
    def __repr__(self): return f"G{self.tag}.{self.i}"
    __str__=__repr__
GR={}
class GU(DisjointUnionStrategy):
    def decomposition_function(self,c):
        k,ch=c.info["rules"][c.i]; return tuple(G(c.tag,j) for j in ch) if k=="union" else None
    def formal_step(self): return "u"
    def forward_map(self,*a): raise NotImplementedError
    @classmethod
    def from_dict(cls,d): return cls()
class GP(CartesianProductStrategy):
    def decomposition_function(self,c):
        k,ch=c.info["rules"][c.i]; return tuple(G(c.tag,j) for j in ch) if k=="prod" else None
    def formal_step(self): return "p"
    def forward_map(self,*a): raise NotImplementedError
    def backward_map(self,*a): raise NotImplementedError
    @classmethod
    def from_dict(cls,d): return cls()
class GA(VerificationStrategy):
    def verified(self,c): return c.is_atom()
    def formal_step(self): return "a"
    def get_terms(self,c,n): return Counter({():1}) if n==c.minimum_size_of_object() else Counter()
    @classmethod
    def from_dict(cls,d): return cls()
def mins(rules):
    INF=10**6; m=[INF]*len(rules); ch=True
    while ch:
        ch=False
        for i,(k,c) in enumerate(rules):
            v = c if k=="atom" else (min(m[j] for j in c) if k=="union" else sum(m[j] for j in c))
            v=min(v,INF)
            if v<m[i]: m[i]=v; ch=True
    return m
def productive(rules,m):
    tb=TableMethod()
    for i,(k,c) in enumerate(rules):
        if k=="atom": tb.add_rule_key(ForestRuleKey(i,(),(),RuleBucket.VERIFICATION))
        elif k=="union": tb.add_rule_key(ForestRuleKey(i,tuple(c),tuple(0 for _ in c),RuleBucket.NORMAL))
        else:
            s=sum(m[j] for j in c); tb.add_rule_key(ForestRuleKey(i,tuple(c),tuple(s-m[j] for j in c),RuleBucket.NORMAL))
    return all(tb.is_pumping(i) for i in range(len(rules)))
def reachable(rules):
    seen={0}; st=[0]
    while st:
        i=st.pop(); k,c=rules[i]
        if k!="atom":
            for j in c:
                if j not in seen: seen.add(j); st.append(j)
    return seen
def rand_grammar(rnd):
    while True:
        n=rnd.randint(2,6); rules=[]
        for i in range(n):
            r=rnd.random()
            if r<0.3: rules.append(("atom",rnd.choice([0,1,1,2])))
            elif r<0.65: rules.append(("union",tuple(rnd.randrange(n) for _ in range(rnd.randint(1,3)))))
            else: rules.append(("prod",tuple(rnd.randrange(n) for _ in range(2))))
        # unary unions are equivalence rules: allow. unions must have distinct children? not required structurally
        m=mins(rules)
        if max(m)>=10**6: continue
        if any(k=="union" and len(set(c))!=len(c) for k,c in rules): continue
        if not productive(rules,m): continue
        if len(reachable(rules))<n: continue
        return rules,m
def scramble(rnd,rules):
    n=len(rules); perm=list(range(1,n)); rnd.shuffle(perm); perm=[0]+perm   # keep root at 0
    inv={old:new for new,old in enumerate(perm)}
    out=[None]*n
    for old,(k,c) in enumerate(rules):
        if k=="atom": out[inv[old]]=(k,c)
        else:
            cc=[inv[j] for j in c]; rnd.shuffle(cc); out[inv[old]]=(k,tuple(cc))
    return out
def mutate(rnd,rules):
    rules=list(rules); i=rnd.randrange(len(rules)); k,c=rules[i]
    if k=="atom": rules[i]=("atom",rnd.choice([0,1,2]))
    else:
        c=list(c); c[rnd.randrange(len(c))]=rnd.randrange(len(rules)); rules[i]=(k,tuple(c))
    return rules
def make_spec(tag,rules,m):
    GR[tag]={"rules":rules,"min":m}
    rs=[]
    for i,(k,c) in enumerate(rules):
        cl=G(tag,i); rs.append((GA() if k=="atom" else GU() if k=="union" else GP())(cl))
    return CombinatorialSpecification(G(tag,0),rs)
rnd=random.Random(int(sys.argv[2])); stats=Counter(); T=0; INP=[]; EXP=[]
def gs(rules): return ";".join(("a:%d"%c) if k=="atom" else (("u:" if k=="union" else "p:")+",".join(map(str,c))) for k,c in rules)
for t in range(int(sys.argv[1])):
    A,mA=rand_grammar(rnd)
    B=scramble(rnd,A); kind="scrambled"
    if rnd.random()<0.6:
        for _ in range(50):
            B2=mutate(rnd,B); m2=mins(B2)
            if max(m2)<10**6 and productive(B2,m2) and len(reachable(B2))==len(B2) and not any(k=="union" and len(set(c))!=len(c) for k,c in B2): B=B2; kind="mutated"; break
    mB=mins(B)
    try:
        sA=make_spec(2*t,A,mA); sB=make_spec(2*t+1,B,mB)
    except Exception as e:
        stats["spec build exc "+type(e).__name__]+=1; continue
    try:
        ab=Isomorphism.check(sA,sB); ba=Isomorphism.check(sB,sA); aa=Isomorphism.check(sA,sA)
    except Exception as e:
        stats["check exc "+type(e).__name__]+=1
        if stats["check exc "+type(e).__name__]<3: print("EXC",A,B,repr(e)[:100])
        continue
    cA=[sA.count_objects_of_size(n) for n in range(9)]; cB=[sB.count_objects_of_size(n) for n in range(9)]
    stats[(kind,ab)]+=1; INP.append(gs(A)+" "+gs(B)); EXP.append(str(ab))
    if ab!=ba: stats["ASYM"]+=1; print("ASYM",A,B,ab,ba)
    if not aa: stats["NONREFL"]+=1; print("NONREFL",A)
    if ab and cA!=cB: stats["UNSOUND"]+=1; print("UNSOUND",A,B,cA,cB)
    if kind=="scrambled" and not ab: stats["scrambled-not-iso"]+=1
for k,v in sorted(stats.items(),key=str): print(v,k)

open("/tmp/leanproto/i_in.txt","w").write("\n".join(INP)+"\n"); open("/tmp/leanproto/i_exp.txt","w").write("\n".join(EXP)+"\n")
