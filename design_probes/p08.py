import sys, logging
sys.path.insert(0,"/tmp/probe")
from pw import *
import logzero; logzero.loglevel(logging.ERROR)
from fractions import Fraction
import random as _r
import comb_spec_searcher.strategies.rule as rule_mod
import comb_spec_searcher.strategies.constructor.cartesian as cart_mod
import comb_spec_searcher.strategies.constructor.disjoint as dis_mod
from comb_spec_searcher.rule_db import *
class Enum:
    def __init__(self): self.script=[]; self.pos=0; self.trace=[]
    def pick(self, k):
        if self.pos < len(self.script): c = self.script[self.pos]
        else: c = 0
        self.trace.append((c,k)); self.pos+=1; return c
E=Enum()
class FakeRandom:
    @staticmethod
    def randint(a,b): return a+E.pick(b-a+1)
    @staticmethod
    def choice(seq): return seq[E.pick(len(seq))]
rule_mod.random = FakeRandom; cart_mod.random = FakeRandom; dis_mod.randint = FakeRandom.randint
def distribution(f):
    dist = Counter(); stack=[[]]
    while stack:
        script=stack.pop(); E.script=script; E.pos=0; E.trace=[]
        res=f()
        tr=E.trace
        # expand siblings for positions beyond script
        for i in range(len(script), len(tr)):
            for alt in range(1, tr[i][1]):
                stack.append([c for c,_ in tr[:i]]+[alt])
        p=Fraction(1)
        for _,k in tr: p/=k
        dist[res]+=p
    return dist
bad=0; tot=0
for params in ([], [("k_0","a")], [("k_0","a"),("k_1","b")]):
  for P in (["aa"],["aba","bb"],["ab"],["bab","aa"]):
    for DB in (RuleDB, RuleDBForest):
      root = PW("",P,"ab",False,params)
      s = CombinatorialSpecificationSearcher(root, ppack, ruledb=DB()); 
      spec = s.auto_search(); logzero.loglevel(logging.ERROR)
      for n in range(6):
        for pv, cnt in root.get_terms(n).items():
            kw = dict(zip(root.extra_parameters, pv))
            d = distribution(lambda: spec.random_sample_object_of_size(n, **kw))
            objs = set(root.objects_of_size(n, **kw))
            tot+=1
            if set(d)!=objs or any(v!=Fraction(1,cnt) for v in d.values()):
                bad+=1; print("NONUNIFORM", params,P,DB.__name__,n,kw,dict(d))
print("checked",tot,"bad",bad)
