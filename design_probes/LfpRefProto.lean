import Cssv.Forest
def ruleVal (f : Array Nat) (B : Nat) (r : Rule) : Nat :=
  r.deps.foldl (fun acc d => min acc (Int.toNat ((f.getD d.1 0 : Nat) + d.2))) B
def pass (R : List Rule) (B : Nat) (f : Array Nat) : Array Nat :=
  R.foldl (fun f r => let v := ruleVal f B r; if f.getD r.parent 0 < v then f.setIfInBounds r.parent v else f) f
def iter (R : List Rule) (B : Nat) : Nat → Array Nat → Option (Array Nat × Nat)
  | 0, _ => none
  | fuel+1, f => let f' := pass R B f; if f' == f then some (f, fuel) else iter R B fuel f'
def gapStart (f : Array Nat) (G B : Nat) : Option Nat :=
  (List.range (B + 1)).find? (fun k => 1 ≤ k ∧ k + G ≤ B ∧ f.all (fun v => v < k ∨ k + G ≤ v))
def lfpRef (R : List Rule) (N : Nat) : Option (Array (Option Nat)) := do
  let G := R.foldl (fun g r => r.shifts.foldl (fun g s => max g s.natAbs) g) 1
  let B := (N + 1) * G + 1
  let (f, _) ← iter R B (N * B + 2) (Array.replicate N 0)
  let k ← gapStart f G B
  pure (f.map (fun v => if k + G ≤ v then none else some v))
def parseRule (s : String) : Option Rule :=
  match s.splitOn "|" with
  | [p, cs, ss] => do
      let p ← p.toNat?
      let cs ← (if cs = "" then some [] else (cs.splitOn ",").mapM String.toNat?)
      let ss ← (if ss = "" then some [] else (ss.splitOn ",").mapM String.toInt?)
      pure ⟨p, cs, ss⟩
  | _ => none
def showR (o : Option (Array (Option Nat))) : String :=
  match o with
  | none => "none"
  | some a => " ".intercalate (a.toList.map (fun v => match v with | none => "inf" | some v => toString v))
partial def loop (h : IO.FS.Stream) : IO Unit := do
  let line ← h.getLine
  if line.isEmpty then pure () else
    match line.trimAscii.toString.splitOn " " with
    | [n, rs] =>
      let R := (rs.splitOn ";").filterMap parseRule
      IO.println (showR (lfpRef R n.toNat!))
    | _ => IO.println "bad"
    loop h
def main : IO Unit := do loop (← IO.getStdin)
