import logzero, logging, sys
logzero.loglevel(logging.ERROR)
sys.path.insert(0, "/repo")
from comb_spec_searcher import *
from comb_spec_searcher.bijection import ParallelSpecFinder, EqPathParallelSpecFinder
from comb_spec_searcher.strategies.strategy import DisjointUnionStrategy
from example import AvoidingWithPrefix, pack, ExpansionStrategy, RemoveFrontOfPrefix, Word
class Reduce(DisjointUnionStrategy):
    """remove patterns containing another pattern"""
    def __init__(self): super().__init__(ignore_parent=True, inferrable=True, possibly_empty=False, workable=True)
    def decomposition_function(self, c):
        red = [p for p in c.patterns if not any(q != p and q in p for q in c.patterns)]
        if len(red) == len(c.patterns): return None
        return (AvoidingWithPrefix(c.prefix, red, c.alphabet, c.just_prefix),)
    def formal_step(self): return "reduce"
    def forward_map(self, c, w, children=None): return (w,)
    @classmethod
    def from_dict(cls,d): return cls()
    def __repr__(self): return "Reduce()"
p2 = StrategyPack(initial_strats=[RemoveFrontOfPrefix()], inferral_strats=[Reduce()], expansion_strats=[[ExpansionStrategy()]], ver_strats=[AtomStrategy()], name="x")
import traceback
for F in (ParallelSpecFinder, EqPathParallelSpecFinder):
  for P1,P2 in [(["aa","aab"],["bb"]), (["aa"],["bb","abb"]), (["aa","baa"],["bb","bba"])]:
    s1 = CombinatorialSpecificationSearcher(AvoidingWithPrefix("",P1,"ab"), p2)
    s2 = CombinatorialSpecificationSearcher(AvoidingWithPrefix("",P2,"ab"), p2)
    try:
        r = F(s1,s2).find()
        lab = (s1.start_label, s1.ruledb.equivdb[s1.start_label], s2.start_label, s2.ruledb.equivdb[s2.start_label])
        print(F.__name__,P1,P2,"->", "None" if r is None else "specs", lab)
        if r: 
            from comb_spec_searcher.isomorphism import Bijection
            b = Bijection.construct(*r); print("  bijection", b is not None, [r[0].count_objects_of_size(i) for i in range(6)])
    except Exception as e:
        lab = (s1.start_label, s1.ruledb.equivdb[s1.start_label], s2.start_label, s2.ruledb.equivdb[s2.start_label])
        print(F.__name__,P1,P2,"RAISED", type(e).__name__, str(e)[:100].replace("\n"," "), lab)
        tb = traceback.extract_tb(e.__traceback__)[-1]; print("   at", tb.filename.split("/")[-1], tb.lineno, tb.name)
