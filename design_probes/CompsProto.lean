/-! Prototype: utils.compositions enumerates exactly the bounded compositions (C07/C09/C10). -/
abbrev Bound := Nat × Option Nat

def sumMin (bs : List Bound) : Nat := (bs.map (·.1)).sum
/-- `some s` when every part has an upper bound, `s` their sum -/
def sumMax : List Bound → Option Nat
  | [] => some 0
  | b :: bs => match b.2, sumMax bs with
    | some m, some s => some (m + s)
    | _, _ => none

def guardOk (n : Int) (bs : List Bound) : Bool :=
  decide (0 ≤ n) && decide ((sumMin bs : Int) ≤ n) &&
  (match sumMax bs with | some s => decide (n ≤ (s : Int)) | none => true)

def comps : Int → List Bound → List (List Nat)
  | _, [] => []
  | n, [b] => if guardOk n [b] then [[n.toNat]] else []
  | n, b :: b' :: bs =>
    if guardOk n (b :: b' :: bs) then
      let hi := match b.2 with | some m => m | none => n.toNat
      ((List.range (hi + 1 - b.1)).map (· + b.1)).flatMap
        (fun (i : Nat) => (comps (n - (i : Int)) (b' :: bs)).map (i :: ·))
    else []

/-- `l` respects the bounds position-wise -/
def Within : List Nat → List Bound → Prop
  | [], [] => True
  | x :: xs, b :: bs => b.1 ≤ x ∧ (∀ m, b.2 = some m → x ≤ m) ∧ Within xs bs
  | _, _ => False

theorem sumMin_le_of_within : ∀ (l : List Nat) (bs : List Bound), Within l bs → sumMin bs ≤ l.sum
  | [], [], _ => by simp [sumMin]
  | x :: xs, b :: bs, h => by
    obtain ⟨h1, _, h3⟩ := h
    have := sumMin_le_of_within xs bs h3
    simp [sumMin] at *; omega
  | [], _ :: _, h => by cases h
  | _ :: _, [], h => by cases h

theorem le_sumMax_of_within : ∀ (l : List Nat) (bs : List Bound) (s : Nat), Within l bs → sumMax bs = some s → l.sum ≤ s
  | [], [], s, _, hs => by simp [sumMax] at hs; subst hs; simp
  | x :: xs, b :: bs, s, h, hs => by
    obtain ⟨_, h2, h3⟩ := h
    unfold sumMax at hs
    split at hs
    · rename_i m s' hm hs'
      injection hs with hs; subst hs
      have := le_sumMax_of_within xs bs s' h3 hs'
      have := h2 m hm
      simp; omega
    · cases hs
  | [], _ :: _, _, h, _ => by cases h
  | _ :: _, [], _, h, _ => by cases h

theorem guard_of_within (l : List Nat) (bs : List Bound) (h : Within l bs) : guardOk (l.sum : Int) bs = true := by
  unfold guardOk
  have h1 := sumMin_le_of_within l bs h
  simp only [Bool.and_eq_true, decide_eq_true_eq]
  refine ⟨⟨by omega, by omega⟩, ?_⟩
  split
  · rename_i s hs
    have := le_sumMax_of_within l bs s h hs
    simp; omega
  · rfl

/-- completeness: every bounded composition is produced -/
theorem comps_complete : ∀ (bs : List Bound) (l : List Nat), bs ≠ [] → Within l bs → l ∈ comps (l.sum : Int) bs
  | [], _, h, _ => absurd rfl h
  | [b], l, _, h => by
    match l, h with
    | [x], h =>
      unfold comps
      rw [if_pos (guard_of_within [x] [b] h)]
      simp
  | b :: b' :: bs, l, _, h => by
    match l, h with
    | x :: xs, h =>
      have hg := guard_of_within (x :: xs) (b :: b' :: bs) h
      obtain ⟨h1, h2, h3⟩ := h
      unfold comps
      rw [if_pos hg]
      simp only [List.mem_flatMap, List.mem_map, List.mem_range]
      refine ⟨x, ⟨x - b.1, ?_, by omega⟩, xs, ?_, rfl⟩
      · split
        · rename_i m hm; have := h2 m hm; omega
        · have e2 : ((x : Int) + (xs.sum : Int)).toNat = x + xs.sum := by omega
          simp only [List.sum_cons, Int.natCast_add] at *
          rw [e2]; omega
      · have := comps_complete (b' :: bs) xs (by simp) h3
        have e : (((x :: xs).sum : Nat) : Int) - (x : Int) = (xs.sum : Int) := by
          simp only [List.sum_cons, Int.natCast_add]; omega
        rw [e]; exact this
#print axioms comps_complete
