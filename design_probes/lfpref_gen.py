import sys, random
sys.path.insert(0,"/repo")
from comb_spec_searcher.rule_db.forest import TableMethod
from comb_spec_searcher.typing import ForestRuleKey, RuleBucket
mode=sys.argv[1]; rnd=random.Random(1)
def emit(n,rules): print(n, ";".join(f"{p}|{','.join(map(str,cs))}|{','.join(map(str,ss))}" for p,cs,ss in rules))
def tm(n,rules):
    tb=TableMethod()
    for p,cs,ss in rules: tb.add_rule_key(ForestRuleKey(p,cs,ss,RuleBucket.NORMAL))
    f=tb.function
    return " ".join("inf" if (c in f and f[c] is None) else str(f.get(c,0)) for c in range(n))
out=[]
if mode=="small":
    for t in range(3000):
        n=rnd.randint(1,6); rules=[]
        for _ in range(rnd.randint(1,10)):
            k=rnd.choice([0,1,1,2,2,3]); rules.append((rnd.randrange(n),tuple(rnd.randrange(n) for _ in range(k)),tuple(rnd.randint(-3,3) for _ in range(k))))
        emit(n,rules); out.append(tm(n,rules))
else:
    n=300; rules=[]
    for _ in range(1000):
        k=rnd.choice([0,1,1,2,2,3]) if rnd.random()<0.1 else rnd.choice([1,2,2,3]); rules.append((rnd.randrange(n),tuple(rnd.randrange(n) for _ in range(k)),tuple(rnd.randint(-1,3) for _ in range(k))))
    emit(n,rules); out.append(tm(n,rules))
open("/tmp/leanproto/expect.txt","w").write("\n".join(out)+"\n")
