import sys, random
sys.path.insert(0,"/repo")
from comb_spec_searcher.equiv_db import EquivalenceDB
rnd=random.Random(int(sys.argv[2])); inp=[]; exp=[]
def canon(db,n):
    part=[next(b for b in range(n) if db.equivalent(a,b)) for a in range(n)]
    return f"{part} {[int(db.is_verified(a)) for a in range(n)]}"
for t in range(int(sys.argv[1])):
    n=rnd.randint(2,7); db=EquivalenceDB(); inp.append(f"new {n}"); exp.append("ok")
    for _ in range(rnd.randint(1,25)):
        op=rnd.choice(["two","one","one","one","ver","cyc"]); a,b=rnd.randrange(n),rnd.randrange(n)
        if op=="two": db.add_two_way_edge(a,b); inp.append(f"two {a} {b}")
        elif op=="one": db.add_one_way_edge(a,b); inp.append(f"one {a} {b}")
        elif op=="ver": db.set_verified(a); inp.append(f"ver {a}")
        else: db.connect_cycles(); inp.append("cyc")
        exp.append(canon(db,n))
open("/tmp/leanproto/qd_in.txt","w").write("\n".join(inp)+"\n"); open("/tmp/leanproto/qd_exp.txt","w").write("\n".join(exp)+"\n")
