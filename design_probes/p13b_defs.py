import logzero, logging, sys
logzero.loglevel(logging.ERROR)
sys.path.insert(0, "/repo")
from comb_spec_searcher import *
from comb_spec_searcher.bijection import ParallelSpecFinder, EqPathParallelSpecFinder
from comb_spec_searcher.strategies.strategy import DisjointUnionStrategy
from example import AvoidingWithPrefix, pack, ExpansionStrategy, RemoveFrontOfPrefix, Word
class Reduce(DisjointUnionStrategy):
    """remove patterns containing another pattern"""
    def __init__(self): super().__init__(ignore_parent=True, inferrable=True, possibly_empty=False, workable=True)
    def decomposition_function(self, c):
        red = [p for p in c.patterns if not any(q != p and q in p for q in c.patterns)]
        if len(red) == len(c.patterns): return None
        return (AvoidingWithPrefix(c.prefix, red, c.alphabet, c.just_prefix),)
    def formal_step(self): return "reduce"
    def forward_map(self, c, w, children=None): return (w,)
    @classmethod
    def from_dict(cls,d): return cls()
    def __repr__(self): return "Reduce()"
p2 = StrategyPack(initial_strats=[RemoveFrontOfPrefix()], inferral_strats=[Reduce()], expansion_strats=[[ExpansionStrategy()]], ver_strats=[AtomStrategy()], name="x")
