import sys, random, logging
sys.path.insert(0,"/repo")
import logzero
from comb_spec_searcher.rule_db.forest import TableMethod, ForestRuleExtractor
from comb_spec_searcher.typing import ForestRuleKey, RuleBucket
logzero.loglevel(logging.ERROR)
class FakeDB: pass
B={"R":RuleBucket.REVERSE,"N":RuleBucket.NORMAL,"E":RuleBucket.EQUIV,"V":RuleBucket.VERIFICATION}; BI={v:k for k,v in B.items()}
rnd=random.Random(int(sys.argv[2])); inp=[]; exp=[]
sk=lambda r: f"{r.parent}|{','.join(map(str,r.children))}|{','.join(map(str,r.shifts))}|{BI[r.bucket]}"
while len(inp)<int(sys.argv[1]):
    n=rnd.randint(1,6); rules=[]; S=rnd.choice([1,2,3])
    for _ in range(rnd.randint(1,12)):
        k=rnd.choice([0,1,1,2,2,3]); b=B["V"] if k==0 and rnd.random()<.7 else B[rnd.choice("RNE")]
        rules.append(ForestRuleKey(rnd.randrange(n),tuple(rnd.randrange(n) for _ in range(k)),tuple(rnd.randint(-S,S) for _ in range(k)),b))
    tb=TableMethod()
    for r in rules: tb.add_rule_key(r)
    roots=[c for c in range(n) if tb.is_pumping(c)]
    if not roots: continue
    root=rnd.choice(roots); db=FakeDB(); db.table_method=tb
    ex=ForestRuleExtractor(root,db,None,None)
    inp.append(f"{root} "+";".join(map(sk,rules))); exp.append(";".join(map(sk,ex.needed_rules)))
open("/tmp/leanproto/x_in.txt","w").write("\n".join(inp)+"\n"); open("/tmp/leanproto/x_exp.txt","w").write("\n".join(exp)+"\n")
