"""A real search whose specification needs a reverse rule (forest database)."""
import sys, logging
sys.path.insert(0,"/tmp/probe")
from pw import *
import logzero
from comb_spec_searcher.rule_db import RuleDBForest, RuleDB
from comb_spec_searcher.strategies.strategy import StrategyFactory
from comb_spec_searcher.utils import equal_counters
class ParentExpansion(StrategyFactory):
    """for a class with a one-letter prefix, yield the expansion rule of the class with the empty prefix"""
    def __call__(self, c):
        if not c.just_prefix and len(c.prefix)==1:
            yield Expand()(PW("", c.patterns, c.alphabet, False, c.params))
    def __str__(self): return "parent expansion"
    def __repr__(self): return "ParentExpansion()"
    @classmethod
    def from_dict(cls,d): return cls()
class Known(VerificationStrategy):
    """the empty-prefix class and the classes with prefix in `prefs` have a known enumeration"""
    def __init__(self, prefs): self.prefs=tuple(prefs); super().__init__()
    def verified(self,c): return (not c.just_prefix) and c.prefix in self.prefs
    def formal_step(self): return "known "+",".join(map(repr,self.prefs))
    def get_terms(self,c,n): return c.get_terms(n)
    def get_objects(self,c,n): return c.get_objects(n)
    @classmethod
    def from_dict(cls,d): return cls(d["prefs"])
    def to_jsonable(self): d=super().to_jsonable(); d["prefs"]=list(self.prefs); return d
    def __repr__(self): return f"Known({self.prefs})"
if __name__=="__main__":
    from comb_spec_searcher.strategies.rule import ReverseRule
    for params in ([], [("k_0","a")]):
      for P in (["bb"],["bab","bb"],["ba"],["bbb"]):
        for rev in (True, False):
            pack=StrategyPack(initial_strats=[Peel()], inferral_strats=[], expansion_strats=[[ParentExpansion()]], ver_strats=[PAtom(), Known([""])], name="rev")
            root=PW("b",P,"ab",False,params)
            s=CombinatorialSpecificationSearcher(root,pack,ruledb=RuleDBForest(reverse=rev)); logzero.loglevel(logging.ERROR)
            try:
                spec=s.auto_search(); logzero.loglevel(logging.ERROR)
                ok=all(equal_counters(spec.get_terms(n), root.get_terms(n)) for n in range(7))
                print(len(params),P,"reverse=",rev,"found; kinds",sorted(set(type(r).__name__ for r in spec)),"counts ok",ok)
            except Exception as e:
                logzero.loglevel(logging.ERROR); print(len(params),P,"reverse=",rev,type(e).__name__)
