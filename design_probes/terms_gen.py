import sys, logging
sys.path.insert(0,"/tmp/probe")
from pw import *
from p09 import ExpandM, PeelM, forms
from comb_spec_searcher.strategies.constructor import DisjointUnion, Complement, CartesianProduct, Quotient
import logzero; logzero.loglevel(logging.ERROR)
def st(t): return "/".join(".".join(map(str,k))+"="+str(v) for k,v in sorted(t.items()) if v!=0)
def child(c, e, sizes, prod=False):
    s=f"C={','.join(c.extra_parameters)};E={','.join(a+':'+b for a,b in e.items())};MIN={c.minimum_size_of_object()};MAX={c.minimum_size_of_object() if c.is_atom() else '-'};T="+"+".join(f"{n}@{st(c.get_terms(n))}" for n in sizes)
    return s
inp=[];exp=[]
N=6
for mode in ["", "rename", "merge", "merge rename", "drop", "drop merge rename"]:
  for params in ([], [("k_0","a")], [("k_0","a"),("k_1","b")], [("k_0","a"),("k_1","a")], [("k_0","a"),("k_1","a"),("k_2","b")]):
    for P in (["aa"],["aba","bb"],["ab"],["b","aa"]):
      for prefix in ("","a","b","ab","ba","bab"):
        c = PW(prefix,P,"ab",False,params)
        if c.is_empty(): continue
        for S in (ExpandM(mode), PeelM(mode)):
            try: rule = S(c)
            except StrategyDoesNotApply: continue
            for name, r in forms(rule):
                if r is None or r.comb_class.is_empty(): continue
                con = r.constructor
                for n in range(N+1):
                    subterms = tuple(ch.get_terms for ch in r.children)
                    try: got = st(con.get_terms(r.comb_class.get_terms, subterms, n))
                    except (AssertionError, ZeroDivisionError): got="assert"
                    if type(con) is DisjointUnion:
                        if any(con.fixed_values): continue
                        inp.append(f"union|N={n}|P={','.join(r.comb_class.extra_parameters)}|"+"|".join(child(ch,e,[n]) for ch,e in zip(r.children, con.extra_parameters)))
                    elif type(con) is CartesianProduct:
                        inp.append(f"product|N={n}|P={','.join(r.comb_class.extra_parameters)}|"+"|".join(child(ch,e,range(n+1)) for ch,e in zip(r.children, con.extra_parameters)))
                    elif type(con) is Complement and hasattr(r,"original_rule") and not name.endswith("equiv"):
                        o=r.original_rule
                        inp.append(f"complement|N={n}|IDX={con.idx}|P={','.join(o.comb_class.extra_parameters)}|PT={st(o.comb_class.get_terms(n))}|"+"|".join(child(ch,e,[n]) for ch,e in zip(o.children, con.extra_parameters)))
                    elif type(con) is Quotient and hasattr(r,"original_rule") and not name.endswith("equiv"):
                        o=r.original_rule
                        sh=sum(ch.minimum_size_of_object() for ch in o.children)
                        inp.append(f"quotient|N={n}|IDX={con.idx}|P={','.join(o.comb_class.extra_parameters)}|PT="+"+".join(f"{m}@{st(o.comb_class.get_terms(m))}" for m in range(n+sh+1))+"|"+"|".join(child(ch,e,range(n+sh+1)) for ch,e in zip(o.children, con.extra_parameters)))
                    else: continue
                    exp.append(got)
open("/tmp/leanproto/t_in.txt","w").write("\n".join(inp)+"\n"); open("/tmp/leanproto/t_exp.txt","w").write("\n".join(exp)+"\n")
from collections import Counter
print(Counter(l.split("|")[0] for l in inp))
