import sys, random, itertools
sys.path.insert(0,"/repo")
from comb_spec_searcher.equiv_db import EquivalenceDB
def reach(edges,n):
    R=[[i==j for j in range(n)] for i in range(n)]
    for a,b in edges: R[a][b]=True
    for k in range(n):
        for i in range(n):
            if R[i][k]:
                for j in range(n):
                    if R[k][j]: R[i][j]=True
    return R
def run(seed):
    rnd=random.Random(seed); n=rnd.randint(2,7); T=rnd.randint(1,14)
    db=EquivalenceDB(); db.func_times={}; db.func_calls={}
    from collections import defaultdict
    db.func_times=defaultdict(float); db.func_calls=defaultdict(int)
    edges=[]; ver=set(); hist=[]
    for t in range(T):
        op=rnd.choice(["two","one","one","ver","cyc"])
        a,b=rnd.randrange(n),rnd.randrange(n)
        hist.append((op,a,b))
        if op=="two": db.add_two_way_edge(a,b); edges+= [(a,b),(b,a)]
        elif op=="one": db.add_one_way_edge(a,b); edges.append((a,b))
        elif op=="ver": db.set_verified(a); ver.add(a)
        else:
            db.connect_cycles()
            R=reach(edges,n)
            for i in range(n):
                for j in range(n):
                    exp=R[i][j] and R[j][i]
                    if db.equivalent(i,j)!=exp: return (seed,hist,"equiv",i,j,exp)
                    if exp:
                        p=db.find_path(i,j)
                        E=set(edges)
                        if p[0]!=i or p[-1]!=j or any((x,y) not in E for x,y in zip(p,p[1:])): return (seed,hist,"path",i,j,p)
                expv=any(R[i][j] and R[j][i] and j in ver for j in range(n))
                if db.is_verified(i)!=expv: return (seed,hist,"ver",i,expv)
bad=0
for s in range(int(sys.argv[1])):
    try: r=run(s)
    except Exception as e: r=(s,"EXC",repr(e))
    if r:
        bad+=1
        if bad<5: print(r)
print("bad",bad)
