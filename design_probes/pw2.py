"""Words with position-restricted statistics: (name, letter, frompos) counts `letter` at positions >= frompos.
Used to build a *genuine* union rule in which two parent statistics coincide on one child only (finding F10)."""
import sys
sys.path.insert(0, "/repo")
from collections import Counter, defaultdict
from itertools import product
from comb_spec_searcher import *
from comb_spec_searcher.exception import *
class W(str, CombinatorialObject):
    def size(self): return str.__len__(self)
class PW2(CombinatorialClass):
    def __init__(self, prefix, patterns, alphabet, just_prefix=False, params=()):
        self.alphabet=tuple(sorted(alphabet)); self.prefix=W(prefix); self.patterns=tuple(sorted(map(W,patterns))); self.just_prefix=just_prefix
        self.params=tuple(params)   # (name, letter, frompos)
    @property
    def extra_parameters(self): return tuple(n for n,_,_ in self.params)
    def stat(self, w, letter, frompos): return w[frompos:].count(letter)
    def is_empty(self): return any(p in self.prefix for p in self.patterns)
    def is_atom(self): return self.just_prefix
    def minimum_size_of_object(self): return len(self.prefix)
    def get_minimum_value(self, parameter):
        n,l,f = next(p for p in self.params if p[0]==parameter); return self.stat(self.prefix,l,f)
    def get_parameters(self, obj): return tuple(self.stat(obj,l,f) for _,l,f in self.params)
    def possible_parameters(self, n):
        for vals in product(range(n+1), repeat=len(self.params)): yield dict(zip(self.extra_parameters, vals))
    def objects_of_size(self, size, **parameters):
        if self.just_prefix:
            if size==len(self.prefix) and not self.is_empty(): yield W(self.prefix)
            return
        if len(self.prefix)>size: return
        for letters in product(self.alphabet, repeat=size-len(self.prefix)):
            w=W(self.prefix+"".join(letters))
            if all(p not in w for p in self.patterns): yield w
    def to_jsonable(self): return {}
    @classmethod
    def from_dict(cls,d): raise NotImplementedError
    def __eq__(self,o): return isinstance(o,PW2) and (self.alphabet,self.prefix,self.patterns,self.just_prefix,self.params)==(o.alphabet,o.prefix,o.patterns,o.just_prefix,o.params)
    def __hash__(self): return hash((self.alphabet,self.prefix,self.patterns,self.just_prefix,self.params))
    def __repr__(self): return f"PW2({self.prefix!r},{self.params})"
    __str__=__repr__
class ExpandP(DisjointUnionStrategy):
    """children merge two parent statistics onto one child statistic whenever they coincide on every object of the child"""
    def _kids(self, c):
        res=[]
        for pre,jp in [(c.prefix,True)]+[(c.prefix+a,False) for a in c.alphabet]:
            groups={}   # (letter, effective frompos) -> child name : statistics that coincide on all words with this prefix
            mapping={}; cparams=[]
            for n,l,f in c.params:
                # on words with prefix `pre`, stat(l,f) = (#l in pre[f:]) + (#l beyond the prefix); two stats coincide iff same letter and same count inside the prefix
                key=(l, pre[f:].count(l) if f<=len(pre) else None, f if f>len(pre) else None)
                if key in groups: mapping[n]=groups[key]
                else:
                    cn=f"j_{len(cparams)}"; groups[key]=cn; cparams.append((cn,l,f)); mapping[n]=cn
            res.append((PW2(pre,c.patterns,c.alphabet,jp,cparams),mapping))
        return res
    def decomposition_function(self,c):
        if c.just_prefix: return None
        return tuple(k for k,_ in self._kids(c))
    def extra_parameters(self,c,children=None): return tuple(m for _,m in self._kids(c))
    def formal_step(self): return "expandP"
    def forward_map(self,c,w,children=None): raise NotImplementedError
    @classmethod
    def from_dict(cls,d): return cls()
if __name__=="__main__":
    from comb_spec_searcher.utils import equal_counters
    c=PW2("",["aa"],"ab",False,[("k_0","a",0),("k_1","a",1)])
    rule=ExpandP()(c)
    print("children:",rule.children); print("maps:",rule.constructor.extra_parameters)
    rule.subterms=tuple(ch.get_terms for ch in rule.children)
    print("plain ok:", all(equal_counters(rule.get_terms(n), c.get_terms(n)) for n in range(6)))
    for i in range(len(rule.children)):
        r=rule.to_reverse_rule(i); r.subterms=tuple(ch.get_terms for ch in r.children)
        try:
            ok=all(equal_counters(r.get_terms(n), r.comb_class.get_terms(n)) for n in range(6)); print("reverse",i,"ok" if ok else "WRONG")
        except AssertionError as e:
            import traceback; tb=traceback.extract_tb(e.__traceback__)[-1]; print("reverse",i,"AssertionError at",tb.filename.split('/')[-1],tb.lineno)
