import sys, logging, itertools, random
sys.path.insert(0,"/tmp/probe")
from pw import *
import logzero; logzero.loglevel(logging.ERROR)
from comb_spec_searcher.rule_db import *
from comb_spec_searcher.isomorphism import Isomorphism, Bijection
rnd=random.Random(7)
specs={}
def randpats(alpha):
    k=rnd.randint(1,3)
    return sorted(set("".join(rnd.choice(alpha) for _ in range(rnd.randint(1,4))) for _ in range(k)))
tries=0
while len(specs)<140 and tries<600:
    tries+=1
    alpha=rnd.choice(["ab","ab","abc"]); P=randpats(alpha)
    key=(alpha,tuple(P))
    if key in specs: continue
    root=PW("",P,alpha)
    if root.is_empty(): continue
    DB=rnd.choice([RuleDB,RuleDBForest])
    try:
        s=CombinatorialSpecificationSearcher(root, ppack, ruledb=DB()); specs[key]=(s.auto_search(), [len(list(root.objects_of_size(n))) for n in range(7)]); logzero.loglevel(logging.ERROR)
    except Exception as e:
        logzero.loglevel(logging.ERROR); print("search exc", key, repr(e)[:80])
print("specs",len(specs))
bad=0; iso=0; tot=0
for (k1,(s1,c1)),(k2,(s2,c2)) in itertools.combinations_with_replacement(specs.items(),2):
    tot+=1
    try:
        a=Isomorphism.check(s1,s2); b=Isomorphism.check(s2,s1)
    except Exception as e:
        bad+=1; print("EXC",k1,k2,repr(e)[:100]); continue
    if a!=b: bad+=1; print("ASYM",k1,k2,a,b)
    if k1==k2 and not a: bad+=1; print("NOT REFLEXIVE",k1)
    if a:
        iso+=1
        if c1!=c2: bad+=1; print("ISO BUT COUNTS DIFFER",k1,k2,c1,c2)
print("pairs",tot,"iso",iso,"bad",bad)
