import sys, random, itertools, logging
sys.path.insert(0,"/repo")
import logzero
from comb_spec_searcher.rule_db.forest import TableMethod, ForestRuleExtractor
from comb_spec_searcher.typing import ForestRuleKey, RuleBucket
logzero.loglevel(logging.ERROR)
class FakeDB: pass
B=[RuleBucket.REVERSE,RuleBucket.NORMAL,RuleBucket.EQUIV,RuleBucket.VERIFICATION]
def productive(rules, root):
    tb=TableMethod()
    for r in rules: tb.add_rule_key(r)
    return tb.is_pumping(root)
def run(seed):
    rnd=random.Random(seed)
    n=rnd.randint(1,6); m=rnd.randint(1,12); S=rnd.choice([1,2,3])
    rules=[]
    for _ in range(m):
        p=rnd.randrange(n); k=rnd.choice([0,1,1,2,2,3])
        cs=tuple(rnd.randrange(n) for _ in range(k)); ss=tuple(rnd.randint(-S,S) for _ in range(k))
        b = RuleBucket.VERIFICATION if k==0 and rnd.random()<.7 else rnd.choice(B[:3]) 
        rules.append(ForestRuleKey(p,cs,ss,b))
    tb=TableMethod()
    for r in rules: tb.add_rule_key(r)
    roots=[c for c in range(n) if tb.is_pumping(c)]
    if not roots: return None
    root=rnd.choice(roots)
    db=FakeDB(); db.table_method=tb
    try:
        ex=ForestRuleExtractor(root, db, None, None)
    except Exception as e:
        return (seed,"EXC init",repr(e),rules,root)
    nr=ex.needed_rules
    if not set(nr)<=set(rules): return (seed,"notsubset")
    if not productive(nr,root): return (seed,"unproductive",rules,root,nr)
    lhs=[r.parent for r in nr]
    if len(set(lhs))!=len(lhs): return (seed,"dup lhs",rules,root,nr)
    if not set(c for r in nr for c in r.children)<=set(lhs): return (seed,"unclosed",rules,root,nr)
    for i in range(len(nr)):
        if productive(nr[:i]+nr[i+1:],root): return (seed,"notminimal",rules,root,nr)
    # reverse only when needed
    if any(r.bucket==RuleBucket.REVERSE for r in nr):
        if productive([r for r in rules if r.bucket!=RuleBucket.REVERSE],root): return (seed,"reverse unneeded",rules,root,nr)
    return "ok"
bad=0; ok=0
for s in range(int(sys.argv[1])):
    r=run(s)
    if r=="ok": ok+=1
    elif r:
        bad+=1
        if bad<4: print(r)
print("ok",ok,"bad",bad)
