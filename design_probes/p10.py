import sys, logging
sys.path.insert(0,"/tmp/probe")
from pw import *
from p09 import ExpandM, PeelM, forms
import logzero; logzero.loglevel(logging.ERROR)
stats=Counter()
def logged(cc, log, idx):
    def f(n):
        log.append((idx, n)); return cc.get_terms(n)
    return f
for mode in ["", "merge rename", "drop"]:
  for params in ([], [("k_0","a")], [("k_0","a"),("k_1","a"),("k_2","b")]):
    for P in (["aa"],["aba","bb"],["b","aa"],["abab"]):
      for prefix in ("","a","ab","bab","abab","aab"):
        c = PW(prefix,P,"ab",False,params)
        if c.is_empty(): continue
        for S in (ExpandM(mode), PeelM(mode)):
            try: rule = S(c)
            except StrategyDoesNotApply: continue
            for name, r in forms(rule):
                if r is None or r.comb_class.is_empty(): continue
                sh = r.shifts()
                if len(sh) != len(r.children): stats["SHIFT ARITY "+name[:3]]+=1; continue
                for n in range(0, 8):
                    log=[]; selflog=[]
                    r.terms_cache.data.clear() if hasattr(r.terms_cache,"data") else None
                    subterms = tuple(logged(ch, log, i) for i,ch in enumerate(r.children))
                    def parent_terms(m, _l=selflog, _c=r.comb_class): _l.append(m); return _c.get_terms(m)
                    try:
                        r.constructor.get_terms(parent_terms, subterms, n)
                    except Exception as e:
                        stats[("EXC",name[:3],type(e).__name__)]+=1; break
                    for i,m in log:
                        if m > n - sh[i]:
                            stats["OVERREAD "+name[:3]]+=1
                            if stats["OVERREAD "+name[:3]]<4: print("OVERREAD",mode,params,P,repr(prefix),type(S).__name__,name,"n",n,"child",i,"asked",m,"shift",sh[i])
                    for m in selflog:
                        if m >= n: stats["SELF OVERREAD "+name[:3]]+=1; print("SELF",name,n,m)
                    stats["ok "+name[:3]]+=1
for k,v in sorted(stats.items(), key=str): print(k,v)
