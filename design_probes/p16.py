import sys, random
sys.path.insert(0,"/repo")
from comb_spec_searcher.class_queue import DefaultQueue
from comb_spec_searcher.exception import NoMoreClassesToExpandError
class P: pass
def run(seed):
    rnd=random.Random(seed)
    p=P(); ni=rnd.randint(0,2); nn=rnd.randint(0,2); ne=rnd.randint(0,3)
    p.inferral_strats=[f"inf{i}" for i in range(ni)]
    p.initial_strats=[f"ini{i}" for i in range(nn)]
    p.expansion_strats=[[f"e{j}_{i}" for i in range(rnd.randint(1,2))] for j in range(ne)]
    q=DefaultQueue(p); n=rnd.randint(1,5)
    handed=[]; stopped=set(); added=set(); hist=[]; notinf=set()
    for t in range(rnd.randint(1,40)):
        op=rnd.choice(["add","add","next","next","next","stop","ver","ninf","level"])
        l=rnd.randrange(n); hist.append((op,l))
        if op=="add": q.add(l); added.add(l)
        elif op=="stop": q.set_stop_yielding(l); stopped.add(l)
        elif op=="ver": q.set_verified(l); stopped.add(l)
        elif op=="ninf": q.set_not_inferrable(l); 
        elif op=="next":
            try: wps=[next(q)]
            except StopIteration:
                wps=[]
                try: next(q); return (seed,hist,"not sticky")
                except StopIteration: pass
        else:
            wps=[]
            try:
                for wp in q.do_level(): wps.append(wp)
            except NoMoreClassesToExpandError: pass
        if op in("next","level"):
            for wp in wps:
                if wp.label in stopped: return (seed,hist,"handed stopped",wp)
                for s in wp.strategies:
                    if (wp.label,s,wp.inferral) in handed: return (seed,hist,"dup",wp)
                    handed.append((wp.label,s,wp.inferral))
    # drain
    cnt=0
    while True:
        try: wp=next(q)
        except StopIteration: break
        cnt+=1
        if cnt>10000: return (seed,hist,"nonterm")
        if wp.label in stopped: return (seed,hist,"handed stopped",wp)
        for s in wp.strategies:
            if (wp.label,s,wp.inferral) in handed: return (seed,hist,"dup",wp)
            handed.append((wp.label,s,wp.inferral))
    for l in added-stopped:
        got=[s for (ll,s,i) in handed if ll==l and not i]
        exp=p.initial_strats+[s for es in p.expansion_strats for s in es]
        if got!=exp: return (seed,hist,"incomplete",l,got,exp)
bad=0
for s in range(int(sys.argv[1])):
    try: r=run(s)
    except Exception as e:
        import traceback; r=(s,"EXC",repr(e), traceback.format_exc()[-300:])
    if r:
        bad+=1
        if bad<5: print(r)
print("bad",bad)
