def hello := "world"
