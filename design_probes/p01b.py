import sys, logging, itertools, random, traceback
sys.path.insert(0,"/tmp/probe")
from pw import *
import logzero; logzero.loglevel(logging.ERROR)
from comb_spec_searcher.rule_db import *
from comb_spec_searcher.utils import equal_counters
class Reduce(DisjointUnionStrategy):
    def __init__(self): super().__init__(ignore_parent=True, inferrable=True, possibly_empty=False, workable=True)
    def decomposition_function(self, c):
        red = [p for p in c.patterns if not any(q != p and q in p for q in c.patterns)]
        if len(red) == len(c.patterns): return None
        return (PW(c.prefix, red, c.alphabet, c.just_prefix, c.params),)
    def extra_parameters(self, c, children=None): return ({k: k for k in c.extra_parameters},)
    def formal_step(self): return "reduce"
    def forward_map(self, c, w, children=None): return (w,)
    @classmethod
    def from_dict(cls,d): return cls()
    def __repr__(self): return "Reduce()"
class Swap(SymmetryStrategy):
    """swap the two letters; parameters follow the letters"""
    def _t(self, c): al=c.alphabet; return str.maketrans(al[0]+al[1], al[1]+al[0])
    def decomposition_function(self, c):
        if len(c.alphabet)!=2: return None
        t=self._t(c)
        return (PW(c.prefix.translate(t), [p.translate(t) for p in c.patterns], c.alphabet, c.just_prefix, [(n,l.translate(t)) for n,l in c.params]),)
    def extra_parameters(self, c, children=None): return ({k: k for k in c.extra_parameters},)
    def formal_step(self): return "swap"
    def forward_map(self, c, w, children=None): return (W(w.translate(self._t(c))),)
    def backward_map(self, c, ws, children=None): yield W(ws[0].translate(self._t(c)))
    @classmethod
    def from_dict(cls,d): return cls()
    def __repr__(self): return "Swap()"
rnd=random.Random(3)
stats=Counter()
def randpats(alpha):
    return sorted(set("".join(rnd.choice(alpha) for _ in range(rnd.randint(1,4))) for _ in range(rnd.randint(1,3))))
for t in range(int(sys.argv[1])):
    alpha=rnd.choice(["ab","ab","abc","a"]); P=randpats(alpha)
    params=rnd.choice([[],[("k_0","a")],[("k_0","a"),("k_1",alpha[-1])]])
    inf=rnd.random()<0.5; sym=rnd.random()<0.4 and len(alpha)==2; it=rnd.random()<0.25; ev=rnd.random()<0.2; small=(not it) and rnd.random()<0.3
    DB=rnd.choice([RuleDB,RuleDBForgetStrategy,RuleDBForest])
    pack=StrategyPack(initial_strats=[Peel()], inferral_strats=[Reduce()] if inf else [], expansion_strats=[[Expand()]], ver_strats=[PAtom()], name="x", symmetries=[Swap()] if sym else [], iterative=it)
    root=PW("",P,alpha,False,params)
    cfg=(DB.__name__,"inf" if inf else "","sym" if sym else "","it" if it else "","ev" if ev else "","small" if small else "")
    try:
        s=CombinatorialSpecificationSearcher(root, pack, ruledb=DB(), expand_verified=ev)
        kw={"smallest":True} if small and DB is not RuleDBForest else {}
        spec=s.auto_search(**kw); logzero.loglevel(logging.ERROR)
    except Exception as e:
        logzero.loglevel(logging.ERROR)
        tb=traceback.extract_tb(e.__traceback__)[-1]
        k=("SEARCH-EXC",type(e).__name__,tb.filename.split("/")[-1],tb.lineno)+cfg[:1]+(cfg[1],cfg[3])
        stats[k]+=1
        if stats[k]<=1: print(k, alpha,P,params,cfg, str(e)[:80].replace("\n"," "))
        continue
    try:
        ok=all(equal_counters(spec.get_terms(n), root.get_terms(n)) for n in range(7))
        objs=all({k:sorted(v) for k,v in spec.get_objects(n).items() if v}=={k:sorted(v) for k,v in root.get_objects(n).items()} for n in range(6))
        if not ok or not objs:
            stats["WRONG"]+=1; print("WRONG",alpha,P,params,cfg,ok,objs)
        else: stats["ok"]+=1
    except Exception as e:
        tb=traceback.extract_tb(e.__traceback__)[-1]
        k=("COUNT-EXC",type(e).__name__,tb.filename.split("/")[-1],tb.lineno)+cfg[:1]
        stats[k]+=1
        if stats[k]<=2: print(k, alpha,P,params,cfg, str(e)[:80].replace("\n"," "))
for k,v in sorted(stats.items(), key=str): print(v,k)
