import sys
sys.path.insert(0,"/repo")
from collections import Counter
from comb_spec_searcher.strategies.constructor import DisjointUnion, Complement, CartesianProduct, Quotient
class C:
    def __init__(self, params): self.extra_parameters = tuple(params)
P = C(["k0","k1"]); A = C(["j0","j1"]); B = C(["j"])
ep = ({"k0":"j0","k1":"j1"}, {"k0":"j","k1":"j"})
At = Counter({(1,0):1,(2,1):1}); Bt = Counter({(1,):2,(3,):1})
du = DisjointUnion(P,(A,B),ep)
Pt = du.get_terms(None,(lambda n: At, lambda n: Bt),0)
print("union", dict(Pt))
for idx in (0,1):
    cm = Complement(P,(A,B),idx,ep)
    others = [t for i,t in enumerate((At,Bt)) if i!=idx]
    try:
        r = cm.get_terms(None, (lambda n: Pt,)+tuple((lambda n,t=t: t) for t in others), 0)
        print("complement idx",idx, dict(r), "expected", dict((At,Bt)[idx]))
    except AssertionError as e:
        import traceback; tb=traceback.extract_tb(e.__traceback__)[-1]
        print("complement idx",idx,"AssertionError at", tb.filename.split('/')[-1], tb.lineno)
