#!/usr/bin/env python3
"""Regenerate MANIFEST.json from tools/checks.json (one entry per claimed property)."""
import json, os
ROOT = os.path.dirname(os.path.dirname(os.path.abspath(__file__)))
checks = json.load(open(os.path.join(ROOT, "tools", "checks.json")))
props = [json.loads(l)["id"] for l in open(os.path.join(ROOT, "properties.jsonl"))]
m = {
    "version": 1,
    "setup_cmd": "cd lean && lake build",
    "hooks": {
        "guard": "COMB_SPEC_SEARCHER_VERIF",
        "enable": "no hook is needed: the harness imports comb_spec_searcher from /repo's working tree and observes it by subclassing / wrapping from outside; ./check exports COMB_SPEC_SEARCHER_VERIF=1 for uniformity",
        "baseline_off_cmd": "cd /repo && /venv/bin/python -m pytest -ra -q -p no:cacheprovider --timeout=900 --continue-on-collection-errors",
        "source_commits": [],
        "add_only": True,
    },
    "engines": [
        {"name": "lean", "path": "lean", "serves_properties": sorted(checks["claimed"]),
         "kind_free_text": "Lean 4 library CSSVerif (core only): specs, proven references/checkers, executable models, line-protocol drivers"},
        {"name": "harness", "path": "harness", "serves_properties": sorted(checks["claimed"]),
         "kind_free_text": "Python harness: generators, correspondence runs against /repo, property oracles, verdict logic, evidence"},
    ],
    "checks": [],
    "notes": "All checks: ./check <id> --tier quick|thorough; VERIF_SEED honoured; exit 2 = machinery error. See DESIGN.md.",
    "not_applicable": [],
}
for pid in props:
    if pid in checks["claimed"]:
        c = checks["claimed"][pid]
        m["checks"].append({
            "property_id": pid,
            "quick_cmd": f"./check {pid} --tier quick",
            "thorough_cmd": f"./check {pid} --tier thorough",
            "evidence_file": f"evidence/{pid}.json",
            "replay_cmd_template": f"./check {pid} --replay {{path}}",
            "engine": "lean+harness",
            "level_claimed": {"category": "proof", "text": c["text"], "design_ref": c.get("design_ref", "DESIGN.md section 5")},
            "level_note": c["note"],
            "technique": c["technique"],
        })
    else:
        m["not_applicable"].append({"property_id": pid, "reason": checks["unclaimed"].get(pid, "check not built yet (work in progress in this session); the technique applies, see DESIGN.md 7.3")})
json.dump(m, open(os.path.join(ROOT, "MANIFEST.json"), "w"), indent=1)
print("claimed", len(m["checks"]), "unclaimed", len(m["not_applicable"]))
