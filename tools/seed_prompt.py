#!/usr/bin/env python3
"""tools/seed_prompt.py <wave-dir> <Cxx>...  — write <wave-dir>/<Cxx>.prompt.txt for a further round of seeded changes:
the first-round prompt (property text only) re-targeted at the new scratch worktree, plus one line per change already
stored under seeded/ (so that the round produces different ones). Creates the scratch worktree <wave-dir>/<Cxx>."""
import glob, json, os, subprocess, sys

wave = sys.argv[1]
os.makedirs(wave, exist_ok=True)
here = os.path.dirname(os.path.dirname(os.path.abspath(__file__)))
for p in sys.argv[2:]:
    base = open(os.path.join(here, "tools", "seed_prompts", f"{p}.prompt.txt")).read()  # the first-round prompts (property text only)
    base = base.split("IMPORTANT - this is a")[0].rstrip()
    base = base.replace(f"/tmp/seed/{p}", f"{wave}/{p}")
    prev = []
    for d in sorted(glob.glob(f"{here}/seeded/{p}_*")):
        m = json.load(open(d + "/meta.json"))
        prev.append(f"- {m.get('file')}: {m.get('summary')}")
    text = base + "\n\n\nIMPORTANT - this is a further round. The following changes were already produced in earlier rounds; do NOT repeat them or trivial variants of them, and prefer different files / functions / mechanisms (look for other code paths that contribute to the property):\n" + "\n".join(prev) + "\n"
    open(f"{wave}/{p}.prompt.txt", "w").write(text)
    wt = f"{wave}/{p}"
    if not os.path.isdir(wt):
        subprocess.run(["git", "-C", "/repo", "worktree", "add", "-q", "--detach", wt, "HEAD"], check=True)
    print(p, len(prev), "earlier changes listed")
