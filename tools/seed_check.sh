#!/bin/bash
# tools/seed_check.sh <seeded-dir-name> <Cxx> [more Cxx...]: apply the seeded patch to /repo, run the checks, undo. Prints one line per check.
D=/verif/seeded/$1; shift
git -C /repo apply $D/patch.diff || { echo "patch does not apply"; exit 2; }
for c in "$@"; do
  out=$(cd /verif && timeout 1500 ./check $c 2>&1); rc=$?
  echo "$(basename $D) $c rc=$rc $(echo "$out" | grep -c '^VIOLATION') violation-lines; $(echo "$out" | grep '^VIOLATION' | head -1); $(echo "$out" | tail -1)"
done
git -C /repo checkout -- .
