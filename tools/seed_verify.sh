#!/bin/bash
# tools/seed_verify.sh <prop> <mK>   confirm a seeded change from $SEEDROOT(/tmp/seed)/<prop>/_seed/<mK> in a scratch worktree of /repo HEAD
# (stored as seeded/<prop>_$SEEDTAG<mK>):
#   patch applies; 45 tests pass with it; demo FAILs with it; demo PASSes without. On success store it in /verif/seeded/<prop>_<mK>/.
set -u
P=$1; M=$2; ROOT=${SEEDROOT:-/tmp/seed}; TAG=${SEEDTAG:-}; SRC=$ROOT/$P/_seed/$M; WT=/tmp/sv_${P}_${TAG}${M}; OUT=/verif/seeded/${P}_${TAG}${M}
rm -rf $WT; git -C /repo worktree prune; git -C /repo worktree add -q --detach $WT HEAD || exit 2
mkdir -p $WT/_seed/$M && cp $SRC/demo.py $WT/_seed/$M/
cd $WT
res_clean=$(/venv/bin/python _seed/$M/demo.py >/tmp/sv_$$.clean 2>&1; echo $?)
if ! git apply $SRC/patch.diff; then echo "$P $M: PATCH DOES NOT APPLY"; cd /; git -C /repo worktree remove --force $WT; exit 1; fi
res_mut=$(/venv/bin/python _seed/$M/demo.py >/tmp/sv_$$.mut 2>&1; echo $?)
tests=$(/venv/bin/python -m pytest -q -p no:cacheprovider --timeout=900 -x 2>&1 | tail -1)
cd /; git -C /repo worktree remove --force $WT
echo "$P $M: demo clean rc=$res_clean, demo mutated rc=$res_mut, tests: $tests"
if [ "$res_clean" = 0 ] && [ "$res_mut" != 0 ] && echo "$tests" | grep -q "45 passed"; then
  mkdir -p $OUT && cp $SRC/patch.diff $SRC/demo.py $OUT/
  python3 - "$SRC/meta.json" "$OUT/meta.json" "$tests" <<'PY'
import json,sys
m=json.load(open(sys.argv[1]))
m["confirmed"]={"scratch_worktree_of":"/repo HEAD","tests_with_change":sys.argv[3].strip(),"demo_with_change":"exit!=0 (FAIL)","demo_without_change":"exit 0 (PASS)",
  "ran":"git apply patch.diff; /venv/bin/python -m pytest -q -p no:cacheprovider --timeout=900 -x; /venv/bin/python _seed/mK/demo.py (with and without the patch)"}
json.dump(m,open(sys.argv[2],"w"),indent=1)
PY
  echo "  stored in $OUT"
else
  echo "  NOT CONFIRMED"; tail -5 /tmp/sv_$$.clean /tmp/sv_$$.mut
fi
rm -f /tmp/sv_$$.clean /tmp/sv_$$.mut
