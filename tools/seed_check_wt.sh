#!/bin/bash
# tools/seed_check_wt.sh <seeded-name> <Cxx> [Cxx...]
# Run checks against a seeded change in a scratch worktree of /repo HEAD (never touches /repo's working tree):
# the checks import the library from $CSS_REPO. Works from a `vp run` snapshot too (builds lean there if needed).
HERE="$(cd "$(dirname "$0")/.." && pwd)"
S=$1; shift
WT=$(mktemp -d /tmp/scwt_${S}_XXXX); rmdir $WT
git -C /repo worktree add -q --detach $WT HEAD || exit 2
trap 'git -C /repo worktree remove --force $WT; git -C /repo worktree prune' EXIT
git -C $WT apply $HERE/seeded/$S/patch.diff || { echo "$S: patch does not apply"; exit 2; }
[ -d $HERE/lean/.lake ] || (cd $HERE/lean && lake build >/dev/null 2>&1)
for c in "$@"; do
  out=$(cd $HERE && CSS_REPO=$WT timeout 3000 ./check $c 2>&1); rc=$?
  echo "$S $c rc=$rc $(echo "$out" | grep '^VIOLATION' | head -1) || $(echo "$out" | tail -1)"
done
